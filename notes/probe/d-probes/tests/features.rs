//! Feature paths (metrics / tracing) of cache, coalesce, fallback (hedge has the features but no code under them).
//! Run: cargo test --offline --features metrics --test features -- --test-threads=1 --nocapture
//!      cargo test --offline --features tracing --test features -- --test-threads=1 --nocapture
//!      cargo test --offline --features metrics,tracing --test features -- --test-threads=1 --nocapture
#![allow(unused)]
use probe_d::*;
use std::panic::{catch_unwind, AssertUnwindSafe};
use std::sync::atomic::{AtomicUsize, Ordering};
use std::sync::{Arc, Mutex};
use std::time::Duration;
use tower::{Layer, Service, ServiceExt};

/// name of the metric / substring of the tracing message at which the recorder / subscriber panics (once)
static ARM: Mutex<Option<String>> = Mutex::new(None);
fn arm(s: &str) {
    *ARM.lock().unwrap() = Some(s.to_string());
}
fn fire_if(name: &str) {
    let mut g = ARM.lock().unwrap();
    if g.as_deref().map_or(false, |a| name.contains(a)) {
        *g = None;
        drop(g);
        panic!("recorder/subscriber panics at {name}");
    }
}
fn disarm() -> bool {
    ARM.lock().unwrap().take().is_some()
}

#[cfg(feature = "metrics")]
mod rec {
    use metrics::*;
    pub struct R;
    impl Recorder for R {
        fn describe_counter(&self, _: KeyName, _: Option<Unit>, _: SharedString) {}
        fn describe_gauge(&self, _: KeyName, _: Option<Unit>, _: SharedString) {}
        fn describe_histogram(&self, _: KeyName, _: Option<Unit>, _: SharedString) {}
        fn register_counter(&self, key: &Key, _: &Metadata<'_>) -> Counter {
            super::fire_if(key.name());
            Counter::noop()
        }
        fn register_gauge(&self, key: &Key, _: &Metadata<'_>) -> Gauge {
            super::fire_if(key.name());
            Gauge::noop()
        }
        fn register_histogram(&self, key: &Key, _: &Metadata<'_>) -> Histogram {
            super::fire_if(key.name());
            Histogram::noop()
        }
    }
    pub fn install() {
        static ONCE: std::sync::Once = std::sync::Once::new();
        ONCE.call_once(|| {
            let _ = metrics::set_global_recorder(R);
        });
    }
}

#[cfg(feature = "tracing")]
mod sub {
    use tracing::field::{Field, Visit};
    use tracing::span::{Attributes, Id, Record};
    use tracing::{Event, Metadata, Subscriber};
    pub struct S;
    struct V(String);
    impl Visit for V {
        fn record_debug(&mut self, f: &Field, v: &dyn std::fmt::Debug) {
            if f.name() == "message" {
                self.0 = format!("{v:?}");
            }
        }
    }
    impl Subscriber for S {
        fn enabled(&self, _: &Metadata<'_>) -> bool {
            true
        }
        fn new_span(&self, _: &Attributes<'_>) -> Id {
            Id::from_u64(1)
        }
        fn record(&self, _: &Id, _: &Record<'_>) {}
        fn record_follows_from(&self, _: &Id, _: &Id) {}
        fn event(&self, e: &Event<'_>) {
            let mut v = V(String::new());
            e.record(&mut v);
            super::fire_if(&format!("trace:{}", v.0));
        }
        fn enter(&self, _: &Id) {}
        fn exit(&self, _: &Id) {}
    }
    pub fn install() {
        static ONCE: std::sync::Once = std::sync::Once::new();
        ONCE.call_once(|| {
            let _ = tracing::subscriber::set_global_default(S);
        });
    }
}

fn install() {
    quiet_panics();
    #[cfg(feature = "metrics")]
    rec::install();
    #[cfg(feature = "tracing")]
    sub::install();
}

fn points() -> Vec<(&'static str, &'static str)> {
    // (layer, arming point)
    let mut v = vec![];
    #[cfg(feature = "metrics")]
    v.extend([("cache", "cache_requests_total"), ("cache", "cache_size"), ("cache", "cache_evictions_total"), ("fallback", "fallback_calls_total"), ("coalesce", "coalesce_requests_total")]);
    #[cfg(feature = "tracing")]
    v.extend([("cache", "trace:Cache hit"), ("cache", "trace:Cache miss"), ("cache", "trace:Cache eviction"), ("fallback", "trace:Calling inner"), ("fallback", "trace:Inner service succeeded"), ("coalesce", "trace:Request executing as leader"), ("coalesce", "trace:Request coalesced as waiter")]);
    v
}

#[tokio::test]
async fn cache_points() {
    install();
    use tower_resilience_cache::CacheLayer;
    for (_, point) in points().into_iter().filter(|p| p.0 == "cache") {
        let n = Arc::new(AtomicUsize::new(0));
        let n2 = n.clone();
        let layer = CacheLayer::builder().max_size(1).key_extractor(|r: &u32| *r).build();
        let mut svc = layer.layer(tower::service_fn(move |k: u32| {
            let n = n2.clone();
            async move { Ok::<_, String>((k, n.fetch_add(1, Ordering::SeqCst))) }
        }));
        assert_eq!(svc.ready().await.unwrap().call(1).await.unwrap(), (1, 0));
        arm(point);
        // a miss with eviction, then a hit: one of them meets the armed point
        let mut outcome = vec![];
        for k in [2u32, 2] {
            svc.ready().await.unwrap();
            match catch_unwind(AssertUnwindSafe(|| svc.call(k))) {
                Err(_) => outcome.push("call() panicked".to_string()),
                Ok(f) => match tokio::spawn(f).await {
                    Err(_) => outcome.push("future panicked".to_string()),
                    Ok(r) => outcome.push(format!("{r:?}")),
                },
            }
        }
        let fired = !disarm();
        // afterwards: is the cache usable at all?
        let mut later = vec![];
        for k in [3u32, 3] {
            svc.ready().await.unwrap();
            match catch_unwind(AssertUnwindSafe(|| svc.call(k))) {
                Err(p) => later.push(format!("call() PANICKED: {}", p.downcast_ref::<String>().cloned().unwrap_or_default())),
                Ok(f) => later.push(format!("{:?}", f.await)),
            }
        }
        println!("PROBE cache [{point}] fired={fired}: {outcome:?}; later calls: {later:?}; inner calls {}", n.load(Ordering::SeqCst));
    }
}

#[tokio::test]
async fn fallback_points() {
    install();
    use tower_resilience_fallback::FallbackLayer;
    for (_, point) in points().into_iter().filter(|p| p.0 == "fallback") {
        let layer = FallbackLayer::<u32, u32, String>::value(0);
        let mut svc = layer.layer(tower::service_fn(|k: u32| async move { Ok::<_, String>(k) }));
        arm(point);
        let f = svc.ready().await.unwrap().call(5);
        let r = tokio::spawn(f).await;
        let fired = !disarm();
        let later = svc.ready().await.unwrap().call(6).await;
        println!("PROBE fallback [{point}] fired={fired}: inner answered Ok(5); outer: {}; later call: {later:?}", match r { Ok(x) => format!("{x:?}"), Err(_) => "PANICKED".into() });
    }
}

#[tokio::test]
async fn coalesce_points() {
    install();
    use tower_resilience_coalesce::{CoalesceError, CoalesceLayer};
    for (_, point) in points().into_iter().filter(|p| p.0 == "coalesce") {
        for role in ["leader", "waiter"] {
            let n = Arc::new(AtomicUsize::new(0));
            let n2 = n.clone();
            let mut svc = CoalesceLayer::new(|r: &u32| *r).layer(tower::service_fn(move |k: u32| {
                let n = n2.clone();
                async move {
                    tokio::time::sleep(Duration::from_millis(10)).await;
                    Ok::<_, String>((k, n.fetch_add(1, Ordering::SeqCst)))
                }
            }));
            let leader = if role == "waiter" { Some(tokio::spawn(svc.ready().await.unwrap().call(1))) } else { None };
            tokio::task::yield_now().await;
            arm(point);
            svc.ready().await.unwrap();
            let r = catch_unwind(AssertUnwindSafe(|| svc.call(1)));
            let first = match r {
                Err(_) => "call() panicked".to_string(),
                Ok(f) => format!("{:?}", tokio::time::timeout(Duration::from_secs(2), f).await),
            };
            let fired = !disarm();
            // the key must be usable: next call gets an answer within 2 s
            let next = tokio::time::timeout(Duration::from_secs(2), svc.ready().await.unwrap().call(1)).await;
            assert!(next.is_ok(), "[{point}] as {role}: key wedged");
            if let Some(l) = leader {
                assert!(l.await.unwrap().is_ok());
            }
            println!("PROBE coalesce [{point}] role {role} fired={fired}: {first}; next call {next:?}");
        }
    }
}
