//! C11 (+ C20 for coalesce) probes. Run: cargo test --offline --test coalesce -- --test-threads=1 --nocapture
use probe_d::*;
use std::panic::{catch_unwind, AssertUnwindSafe};
use std::sync::atomic::{AtomicIsize, AtomicUsize, Ordering};
use std::sync::Arc;
use std::task::Poll;
use std::time::Duration;
use tower::{Layer, Service, ServiceExt};
use tower_resilience_coalesce::{CoalesceConfig, CoalesceError, CoalesceLayer};

const KEYS: usize = 4;

struct Mon {
    inflight: [AtomicIsize; KEYS],
    max_seen: AtomicIsize,
    serial: AtomicUsize,
    calls: AtomicUsize,
}
struct Guard(Arc<Mon>, usize);
impl Drop for Guard {
    fn drop(&mut self) {
        self.0.inflight[self.1].fetch_sub(1, Ordering::SeqCst);
    }
}

/// request = (key, latency in µs, outcome: 0 ok, 1 err, 2 panic); response = (key, serial)
type Req = (usize, u64, u8);

fn inner(mon: Arc<Mon>) -> impl Service<Req, Response = (usize, usize), Error = String, Future = impl Send> + Clone + Send {
    tower::service_fn(move |(k, lat, out): Req| {
        let m = mon.clone();
        // the inner call exists from here (call() time) until its future is dropped or done
        let n = m.inflight[k].fetch_add(1, Ordering::SeqCst) + 1;
        m.max_seen.fetch_max(n, Ordering::SeqCst);
        m.calls.fetch_add(1, Ordering::SeqCst);
        let g = Guard(m.clone(), k);
        async move {
            let _g = g;
            if lat > 0 {
                tokio::time::sleep(Duration::from_micros(lat)).await;
            } else {
                tokio::task::yield_now().await;
            }
            let s = m.serial.fetch_add(1, Ordering::SeqCst);
            match out {
                0 => Ok((k, s)),
                1 => Err(format!("e{k}-{s}")),
                _ => panic!("inner future panics"),
            }
        }
    })
}

fn mon() -> Arc<Mon> {
    Arc::new(Mon {
        inflight: Default::default(),
        max_seen: AtomicIsize::new(0),
        serial: AtomicUsize::new(0),
        calls: AtomicUsize::new(0),
    })
}

/// Real threads: many tasks on a multi-thread runtime, leaders and waiters aborted at random
/// moments, leaders that panic. Per key never two inner calls in flight; nobody hangs; results
/// carry the right key.
#[test]
fn a_threads_stress() {
    quiet_panics();
    for round in 0..6u64 {
        let rt = tokio::runtime::Builder::new_multi_thread().worker_threads(8).enable_all().build().unwrap();
        let m = mon();
        let svc = CoalesceLayer::new(|r: &Req| r.0).layer(inner(m.clone()));
        let (done, cancelled, lc, errs) = rt.block_on(async {
            let mut hs = vec![];
            for t in 0..400u64 {
                let mut s = svc.clone();
                let x = t.wrapping_mul(0x9E3779B97F4A7C15).wrapping_add(round * 77);
                let k = (x >> 7) as usize % KEYS;
                let lat = [0, 0, 50, 300, 2000][(x >> 13) as usize % 5];
                let out = [0, 0, 0, 1, 2][(x >> 19) as usize % 5];
                let h = tokio::spawn(async move {
                    let r = tokio::time::timeout(Duration::from_secs(10), async { s.ready().await.unwrap().call((k, lat, out)).await }).await;
                    let r = r.expect("a request waited 10 s: hang");
                    if let Ok((rk, _)) = &r {
                        assert_eq!(*rk, k, "result of another key");
                    }
                    if let Err(CoalesceError::Service(e)) = &r {
                        assert!(e.starts_with(&format!("e{k}-")), "error of another key: {e}");
                    }
                    r
                });
                if (x >> 23) % 4 == 0 {
                    // abort it a little later
                    let ah = h.abort_handle();
                    let d = (x >> 29) % 400;
                    tokio::spawn(async move {
                        tokio::time::sleep(Duration::from_micros(d)).await;
                        ah.abort();
                    });
                }
                hs.push(h);
                if t % 16 == 0 {
                    tokio::task::yield_now().await;
                }
            }
            let (mut done, mut cancelled, mut lc, mut errs) = (0, 0, 0, 0);
            for h in hs {
                match h.await {
                    Ok(Ok(_)) => done += 1,
                    Ok(Err(CoalesceError::LeaderCancelled)) => lc += 1,
                    Ok(Err(CoalesceError::Service(_))) => errs += 1,
                    Ok(Err(CoalesceError::RecvError)) => panic!("RecvError"),
                    Err(e) if e.is_cancelled() => cancelled += 1,
                    Err(e) => {
                        assert!(e.is_panic());
                        errs += 1
                    }
                }
            }
            // afterwards every key is usable at once
            for k in 0..KEYS {
                let mut s = svc.clone();
                let r = tokio::time::timeout(Duration::from_secs(5), async { s.ready().await.unwrap().call((k, 0, 0)).await }).await.expect("key unusable afterwards");
                assert_eq!(r.unwrap().0, k);
            }
            (done, cancelled, lc, errs)
        });
        println!(
            "PROBE coalesce stress round {round}: ok {done} cancelled {cancelled} leader-cancelled {lc} err/panic {errs}; inner calls {}; max in flight per key {}",
            m.calls.load(Ordering::SeqCst),
            m.max_seen.load(Ordering::SeqCst)
        );
        assert!(m.max_seen.load(Ordering::SeqCst) <= 1, "two inner calls in flight for one key");
        for k in 0..KEYS {
            assert_eq!(m.inflight[k].load(Ordering::SeqCst), 0);
        }
    }
}

#[tokio::test]
async fn b_panics_in_call_release_key() {
    quiet_panics();
    let cnt = Arc::new(AtomicUsize::new(0));
    let c2 = cnt.clone();
    let strict = Strict::new(move |_id, k: u32| {
        let c = c2.clone();
        async move {
            tokio::time::sleep(Duration::from_millis(5)).await;
            Ok::<_, String>((k, c.fetch_add(1, Ordering::SeqCst)))
        }
    });
    let shared = strict.shared.clone();
    for route in 0..3 {
        let kx = |r: &u32| if *r == 99 { panic!("key extractor") } else { *r % 50 };
        let layer = match route {
            0 => CoalesceLayer::new(kx),
            1 => CoalesceLayer::builder(kx).name("x").name("y").build(),
            _ => CoalesceLayer::with_config(CoalesceConfig::builder(kx).name("n").build()),
        };
        let mut svc = layer.layer(strict.clone());
        // key extractor panics: nothing registered
        svc.ready().await.unwrap();
        assert!(catch_unwind(AssertUnwindSafe(|| { let _ = svc.call(99); })).is_err());
        // inner.call panics synchronously for key 1: key must be free afterwards
        shared.sync_panic.store(true, Ordering::SeqCst);
        svc.ready().await.unwrap();
        assert!(catch_unwind(AssertUnwindSafe(|| { let _ = svc.call(1); })).is_err());
        shared.sync_panic.store(false, Ordering::SeqCst);
        let r = tokio::time::timeout(Duration::from_secs(2), svc.ready().await.unwrap().call(1)).await.expect("key 1 wedged");
        assert_eq!(r.unwrap().0, 1);
        // a leader that is never polled but dropped: waiters get LeaderCancelled promptly
        let leader = svc.ready().await.unwrap().call(2);
        let mut s2 = svc.clone();
        let waiter = tokio::spawn(async move { s2.ready().await.unwrap().call(52).await });
        tokio::time::sleep(Duration::from_millis(1)).await;
        drop(leader);
        let w = tokio::time::timeout(Duration::from_secs(2), waiter).await.expect("waiter hangs").unwrap();
        assert!(matches!(w, Err(CoalesceError::LeaderCancelled)), "{w:?}");
        assert_eq!(shared.violations.load(Ordering::SeqCst), 0, "{:?}", shared.log.lock().unwrap());
    }
}

#[tokio::test]
async fn c_readiness() {
    let strict = Strict::with_ready(
        |_id, k: u32| async move { Ok::<_, String>(k) },
        |id, n| match (id, n) {
            (_, 0) => Poll::Pending,
            (0, 2) => Poll::Ready(Err("rdy".to_string())),
            _ => Poll::Ready(Ok(())),
        },
    );
    let shared = strict.shared.clone();
    let mut svc = CoalesceLayer::new(|r: &u32| *r).layer(strict);
    assert_eq!(svc.ready().await.unwrap().call(1).await.unwrap(), 1);
    let e = svc.ready().await.err().unwrap();
    assert!(matches!(e, CoalesceError::Service(ref s) if s == "rdy"));
    assert_eq!(svc.ready().await.unwrap().call(1).await.unwrap(), 1);
    // clone chain
    let mut c = svc.clone().clone();
    assert_eq!(c.ready().await.unwrap().call(2).await.unwrap(), 2);
    assert_eq!(shared.violations.load(Ordering::SeqCst), 0);
    assert_eq!(shared.calls.load(Ordering::SeqCst), 3);
}

/// a second service built from the same layer: separate in-flight maps (each wraps its own service)
#[tokio::test]
async fn d_two_layer_products() {
    let m = mon();
    let layer = CoalesceLayer::new(|r: &Req| r.0);
    let mut a = layer.layer(inner(m.clone()));
    let mut b = layer.clone().layer(inner(m.clone()));
    let fa = a.ready().await.unwrap().call((0, 20_000, 0));
    let fb = b.ready().await.unwrap().call((0, 20_000, 0));
    let (ra, rb) = tokio::join!(fa, fb);
    println!("PROBE coalesce two layer() products, same key concurrently: inner calls {} (serials {:?} {:?})", m.calls.load(Ordering::SeqCst), ra.unwrap(), rb.unwrap());
}

/// current-thread runtime, real clock: the leader sleeps on a timer while a waiter busy-wakes in the
/// SAME task (join!) and in block_on: the timer must still fire.
#[test]
fn e_current_thread_real_clock_busy_waiter() {
    let rt = tokio::runtime::Builder::new_current_thread().enable_all().build().unwrap();
    let m = mon();
    let mut svc = CoalesceLayer::new(|r: &Req| r.0).layer(inner(m.clone()));
    rt.block_on(async {
        let l = svc.ready().await.unwrap().call((1, 30_000, 0));
        let w = svc.ready().await.unwrap().call((1, 0, 1));
        // poll the waiter first
        let (rw, rl) = tokio::time::timeout(Duration::from_secs(5), async { tokio::join!(w, l) }).await.expect("hang");
        assert_eq!(rw.unwrap(), rl.unwrap());
        // leader in a task, waiter in block_on
        let l = svc.ready().await.unwrap().call((2, 30_000, 1));
        let w = svc.ready().await.unwrap().call((2, 0, 0));
        let h = tokio::spawn(l);
        let rw = tokio::time::timeout(Duration::from_secs(5), w).await.expect("hang");
        let rl = h.await.unwrap();
        assert!(matches!((&rw, &rl), (Err(CoalesceError::Service(a)), Err(CoalesceError::Service(b))) if a == b));
        assert_eq!(m.calls.load(Ordering::SeqCst), 2);
    });
}

/// waiter polled with select! against a timer (a time limiter above coalesce): timeout must fire
#[tokio::test]
async fn f_waiter_under_timeout() {
    let m = mon();
    let mut svc = CoalesceLayer::new(|r: &Req| r.0).layer(inner(m.clone()));
    let l = svc.ready().await.unwrap().call((1, 200_000, 0));
    let w = svc.ready().await.unwrap().call((1, 0, 0));
    let lh = tokio::spawn(l);
    let t = std::time::Instant::now();
    let r = tokio::time::timeout(Duration::from_millis(20), w).await;
    assert!(r.is_err());
    assert!(t.elapsed() < Duration::from_millis(150), "timeout starved by the busy waiter: {:?}", t.elapsed());
    // a dropped waiter changes nothing for the leader
    assert_eq!(lh.await.unwrap().unwrap().0, 1);
    assert_eq!(m.calls.load(Ordering::SeqCst), 1);
}
