//! Shared helpers for the probe tests (tag d).
use std::future::Future;
use std::pin::Pin;
use std::sync::atomic::{AtomicBool, AtomicUsize, Ordering};
use std::sync::{Arc, Mutex};
use std::task::{Context, Poll};

/// A panic payload whose Drop panics.
pub struct Bomb;
impl Drop for Bomb {
    fn drop(&mut self) {
        panic!("bomb payload dropped");
    }
}

pub fn panic_string() -> ! {
    panic!("listener panics (String)")
}
pub fn panic_bomb() -> ! {
    std::panic::panic_any(Bomb)
}

/// Silence the default panic hook output for expected panics.
pub fn quiet_panics() {
    static ONCE: std::sync::Once = std::sync::Once::new();
    ONCE.call_once(|| {
        std::panic::set_hook(Box::new(|_| {}));
    });
}

/// Strict, contract-checking service: `call` panics (recorded as a violation) unless
/// `poll_ready` returned Ready(Ok) on THIS instance since its last call. Clones are not ready.
/// The behaviour of a call is given by a closure from (instance id, request) to a future.
pub struct Strict<Req, Res, E> {
    pub shared: Arc<StrictShared>,
    pub id: usize,
    ready: bool,
    #[allow(clippy::type_complexity)]
    f: Arc<dyn Fn(usize, Req) -> Pin<Box<dyn Future<Output = Result<Res, E>> + Send>> + Send + Sync>,
    /// readiness script: called at every poll_ready with (id, poll count of this instance)
    #[allow(clippy::type_complexity)]
    rdy: Arc<dyn Fn(usize, usize) -> Poll<Result<(), E>> + Send + Sync>,
    polls: usize,
}

#[derive(Default)]
pub struct StrictShared {
    pub next_id: AtomicUsize,
    pub violations: AtomicUsize,
    pub calls: AtomicUsize,
    pub clones: AtomicUsize,
    pub log: Mutex<Vec<String>>,
    pub sync_panic: AtomicBool,
}

impl<Req, Res, E> Strict<Req, Res, E> {
    pub fn new<F, Fut>(f: F) -> Self
    where
        F: Fn(usize, Req) -> Fut + Send + Sync + 'static,
        Fut: Future<Output = Result<Res, E>> + Send + 'static,
    {
        Self::with_ready(f, |_, _| Poll::Ready(Ok(())))
    }
    pub fn with_ready<F, Fut, R>(f: F, rdy: R) -> Self
    where
        F: Fn(usize, Req) -> Fut + Send + Sync + 'static,
        Fut: Future<Output = Result<Res, E>> + Send + 'static,
        R: Fn(usize, usize) -> Poll<Result<(), E>> + Send + Sync + 'static,
    {
        let shared = Arc::new(StrictShared::default());
        shared.next_id.store(1, Ordering::SeqCst);
        Strict {
            shared,
            id: 0,
            ready: false,
            f: Arc::new(move |i, r| Box::pin(f(i, r))),
            rdy: Arc::new(rdy),
            polls: 0,
        }
    }
}

impl<Req, Res, E> Clone for Strict<Req, Res, E> {
    fn clone(&self) -> Self {
        self.shared.clones.fetch_add(1, Ordering::SeqCst);
        Strict {
            shared: self.shared.clone(),
            id: self.shared.next_id.fetch_add(1, Ordering::SeqCst),
            ready: false,
            f: self.f.clone(),
            rdy: self.rdy.clone(),
            polls: 0,
        }
    }
}

impl<Req, Res, E> tower::Service<Req> for Strict<Req, Res, E> {
    type Response = Res;
    type Error = E;
    type Future = Pin<Box<dyn Future<Output = Result<Res, E>> + Send>>;
    fn poll_ready(&mut self, cx: &mut Context<'_>) -> Poll<Result<(), E>> {
        let r = (self.rdy)(self.id, self.polls);
        self.polls += 1;
        match &r {
            Poll::Ready(Ok(())) => self.ready = true,
            Poll::Ready(Err(_)) => self.ready = false,
            Poll::Pending => {
                cx.waker().wake_by_ref();
            }
        }
        r
    }
    fn call(&mut self, req: Req) -> Self::Future {
        if !self.ready {
            self.shared.violations.fetch_add(1, Ordering::SeqCst);
            self.shared
                .log
                .lock()
                .unwrap()
                .push(format!("call on instance {} without readiness", self.id));
        }
        self.ready = false;
        self.shared.calls.fetch_add(1, Ordering::SeqCst);
        if self.shared.sync_panic.load(Ordering::SeqCst) {
            panic!("inner.call panics synchronously");
        }
        (self.f)(self.id, req)
    }
}
