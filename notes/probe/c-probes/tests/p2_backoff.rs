//! C14: backoff types and ReconnectPolicy at configuration extremes.
use probe_c::*;
use std::time::Duration;
use tower_resilience_reconnect::ReconnectPolicy;
use tower_resilience_retry::{
    ExponentialBackoff, ExponentialRandomBackoff, FixedInterval, FnInterval, IntervalFunction,
};

fn attempts() -> Vec<usize> {
    let mut v: Vec<usize> = (0..2000).collect();
    for k in [
        10_000usize,
        65_535,
        65_536,
        1 << 20,
        (1 << 31) - 2,
        (1 << 31) - 1,
        1 << 31,
        (1 << 31) + 1,
        u32::MAX as usize - 1,
        u32::MAX as usize,
        u32::MAX as usize + 1,
        usize::MAX - 1,
        usize::MAX,
    ] {
        v.push(k);
    }
    v
}

fn initials() -> Vec<Duration> {
    vec![
        Duration::ZERO,
        Duration::from_nanos(1),
        Duration::from_nanos(2),
        Duration::from_nanos(999),
        Duration::from_micros(1),
        Duration::from_millis(1),
        Duration::from_millis(100),
        Duration::from_secs(1),
        Duration::from_secs(86_400),
        Duration::from_secs(86_400 * 30),
        Duration::from_secs(86_400 * 365),
        Duration::new(86_400 * 3, 999_999_999),
    ]
}

fn mults() -> Vec<f64> {
    vec![
        1.0,
        1.0 + f64::EPSILON,
        1.000_000_1,
        1.1,
        1.5,
        2.0,
        std::f64::consts::E,
        9.999_999_999_999_998,
        10.0,
    ]
}

fn caps() -> Vec<Option<Duration>> {
    vec![
        None,
        Some(Duration::ZERO),
        Some(Duration::from_nanos(1)),
        Some(Duration::from_millis(50)),
        Some(Duration::from_secs(5)),
        Some(Duration::from_secs(86_400 * 365 * 10)),
        Some(Duration::MAX),
    ]
}

#[test]
fn exponential_total_monotone_capped() {
    quiet_panics();
    let mut bad = Vec::new();
    for ini in initials() {
        for m in mults() {
            for cap in caps() {
                let mut b = ExponentialBackoff::new(ini).multiplier(m);
                if let Some(c) = cap {
                    b = b.max_interval(c);
                }
                let mut prev = Duration::ZERO;
                for a in attempts() {
                    let r = std::panic::catch_unwind(|| b.next_interval(a));
                    match r {
                        Err(_) => bad.push(format!("PANIC ini={ini:?} m={m} cap={cap:?} a={a}")),
                        Ok(d) => {
                            if let Some(c) = cap {
                                if d > c {
                                    bad.push(format!("ABOVE CAP ini={ini:?} m={m} cap={cap:?} a={a} d={d:?}"));
                                }
                            }
                            if d < prev {
                                bad.push(format!(
                                    "DECREASE ini={ini:?} m={m} cap={cap:?} a={a} d={d:?} prev={prev:?}"
                                ));
                            }
                            // value: uncapped and small enough -> close to ini*m^a
                            if a < 60 {
                                let exact = ini.as_secs_f64() * m.powf(a as f64);
                                let capv = cap.unwrap_or(Duration::MAX).as_secs_f64();
                                if exact < capv * 0.999 && exact < 1e18 {
                                    let got = d.as_secs_f64();
                                    if (got - exact).abs() > exact * 1e-9 + 1.5e-9 {
                                        bad.push(format!("VALUE ini={ini:?} m={m} cap={cap:?} a={a} got={got} want={exact}"));
                                    }
                                } else if exact > capv * 1.001 && d != cap.unwrap_or(Duration::MAX) {
                                    bad.push(format!("NOT AT CAP ini={ini:?} m={m} cap={cap:?} a={a} d={d:?}"));
                                }
                            }
                            prev = d;
                        }
                    }
                }
            }
        }
    }
    for b in bad.iter().take(30) {
        eprintln!("{b}");
    }
    assert!(bad.is_empty(), "PROBE {} violations", bad.len());
}

#[test]
fn jittered_total_and_within_band() {
    quiet_panics();
    let mut bad = Vec::new();
    let factors = [0.0, f64::MIN_POSITIVE, 1e-300, 1e-12, 0.1, 0.5, 0.999_999_999_999_999_9, 1.0, -3.0, 7.0];
    for ini in initials() {
        for m in [1.0, 1.5, 2.0, 10.0] {
            for cap in caps() {
                for f in factors {
                    let mut b = ExponentialRandomBackoff::new(ini, f).multiplier(m);
                    let mut base = ExponentialBackoff::new(ini).multiplier(m);
                    if let Some(c) = cap {
                        b = b.max_interval(c);
                        base = base.max_interval(c);
                    }
                    let fe = f.clamp(0.0, 1.0);
                    for a in attempts().into_iter().filter(|a| *a < 200 || *a > 1900) {
                        let r = std::panic::catch_unwind(|| b.next_interval(a));
                        match r {
                            Err(_) => bad.push(format!("PANIC ini={ini:?} m={m} cap={cap:?} f={f} a={a}")),
                            Ok(d) => {
                                let bs = base.next_interval(a).as_secs_f64();
                                let lo = bs * (1.0 - fe);
                                let hi = bs * (1.0 + fe);
                                let got = d.as_secs_f64();
                                let tol = bs * 1e-12 + 1.5e-9;
                                let himax = hi.min(Duration::MAX.as_secs_f64());
                                if got < lo - tol || got > himax + tol {
                                    bad.push(format!("BAND ini={ini:?} m={m} cap={cap:?} f={f} a={a} got={got} base={bs}"));
                                }
                            }
                        }
                    }
                }
            }
        }
    }
    for b in bad.iter().take(30) {
        eprintln!("{b}");
    }
    assert!(bad.is_empty(), "PROBE {} violations", bad.len());
}

#[test]
fn reconnect_policies() {
    quiet_panics();
    let mut bad = Vec::new();
    let durs = [
        Duration::ZERO,
        Duration::from_nanos(1),
        Duration::from_millis(100),
        Duration::from_secs(5),
        Duration::from_secs(86_400 * 365),
        Duration::MAX,
    ];
    for ini in durs {
        for max in durs {
            let p = ReconnectPolicy::exponential(ini, max);
            let q = p.clone();
            let mut prev = Duration::ZERO;
            for a in attempts() {
                match std::panic::catch_unwind(std::panic::AssertUnwindSafe(|| {
                    (p.delay_for_attempt(a), q.delay_for_attempt(a))
                })) {
                    Err(_) => bad.push(format!("PANIC exp ini={ini:?} max={max:?} a={a}")),
                    Ok((Some(d), Some(d2))) => {
                        if d != d2 {
                            bad.push(format!("CLONE DIFFERS ini={ini:?} max={max:?} a={a}"));
                        }
                        if d > max || d < prev {
                            bad.push(format!("exp ini={ini:?} max={max:?} a={a} d={d:?} prev={prev:?}"));
                        }
                        prev = d;
                    }
                    Ok(_) => bad.push("None from exponential".to_string()),
                }
            }
            for f in [0.0, 1e-9, 0.5, 1.0] {
                let p = ReconnectPolicy::exponential_random(ini, max, f).clone();
                for a in attempts().into_iter().filter(|a| *a < 100 || *a > 1990) {
                    match std::panic::catch_unwind(std::panic::AssertUnwindSafe(|| p.delay_for_attempt(a))) {
                        Err(_) => bad.push(format!("PANIC exprand ini={ini:?} max={max:?} f={f} a={a}")),
                        Ok(Some(d)) => {
                            let lim = max.as_secs_f64() * (1.0 + f);
                            if d.as_secs_f64() > lim * (1.0 + 1e-12) + 2e-9 {
                                bad.push(format!("exprand above band ini={ini:?} max={max:?} f={f} a={a} d={d:?}"));
                            }
                            if f == 0.0 {
                                let e = ReconnectPolicy::exponential(ini, max).delay_for_attempt(a).unwrap();
                                let diff = if d > e { d - e } else { e - d };
                                if diff > Duration::from_nanos(1) + e / 1_000_000_000 {
                                    bad.push(format!("exprand f=0 differs ini={ini:?} max={max:?} a={a} d={d:?} e={e:?}"));
                                }
                            }
                        }
                        Ok(None) => bad.push("None".into()),
                    }
                }
            }
        }
        let p = ReconnectPolicy::fixed(ini);
        for a in attempts() {
            if p.delay_for_attempt(a) != Some(ini) {
                bad.push(format!("fixed {ini:?} a={a}"));
            }
        }
    }
    assert!(ReconnectPolicy::none().delay_for_attempt(usize::MAX).is_none());
    assert!(ReconnectPolicy::None.clone().delay_for_attempt(0).is_none());
    let c = ReconnectPolicy::Custom(std::sync::Arc::new(FnInterval::new(|a| {
        Duration::from_nanos(a as u64)
    })));
    assert_eq!(c.clone().delay_for_attempt(usize::MAX), Some(Duration::from_nanos(u64::MAX)));
    let d = ReconnectPolicy::default();
    assert_eq!(d.delay_for_attempt(0), Some(Duration::from_millis(100)));
    assert_eq!(d.delay_for_attempt(usize::MAX), Some(Duration::from_secs(5)));
    let _ = FixedInterval::new(Duration::MAX).next_interval(usize::MAX);
    for b in bad.iter().take(30) {
        eprintln!("{b}");
    }
    assert!(bad.is_empty(), "PROBE {} violations", bad.len());
}

/// multipliers a few ulps above 1 with initial intervals of many days: does rounding in powi make the delay decrease?
#[test]
fn monotone_near_one() {
    let mut bad = 0usize;
    let mut first = None;
    for k in [1u64, 2, 3, 5, 7, 11, 1000, 12345] {
        let m = f64::from_bits(1.0f64.to_bits() + k);
        for days in [60u64, 100, 365, 3650] {
            let b = ExponentialBackoff::new(Duration::from_secs(86_400 * days)).multiplier(m);
            for base in [0usize, 1 << 20, 1 << 26, (1 << 27) - 5000, 1 << 28, 1 << 30, (1usize << 31) - 10_001] {
                let mut prev = b.next_interval(base);
                for a in base + 1..base + 10_000 {
                    let d = b.next_interval(a);
                    if d < prev {
                        bad += 1;
                        if first.is_none() {
                            first = Some(format!("m=1+{k}ulp days={days} a={a} d={d:?} prev={prev:?}"));
                        }
                    }
                    prev = d;
                }
            }
        }
    }
    eprintln!("near-one decreases: {bad} first: {first:?}");
    assert_eq!(bad, 0, "PROBE decreases {bad} {first:?}");
}
