//! Control experiment: pure tokio, no tower-resilience code. Multi-year sleeps under an outer 50-year timeout.
use std::time::Duration;
#[tokio::test(start_paused = true)]
#[ignore = "aborts the test process: tokio timer-wheel assertion, pure tokio; run with --ignored to see it"]
async fn tokio_multi_year() {
    let y = Duration::from_secs(86_400 * 365);
    let t0 = tokio::time::Instant::now();
    let r = tokio::time::timeout(y * 50, async {
        for _ in 0..4 {
            tokio::time::sleep(y).await;
        }
    })
    .await;
    eprintln!("pure tokio: result {:?} after {:?}", r.is_ok(), tokio::time::Instant::now() - t0);
}
