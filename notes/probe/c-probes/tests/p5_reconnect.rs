//! C16 / C20 (reconnect part) / C14 (policies in the loop) at configuration extremes.
use futures::FutureExt;
use probe_c::*;
use std::sync::atomic::Ordering;
use std::sync::Arc;
use std::time::Duration;
use tower::{Layer, Service, ServiceExt};
use tower_resilience_reconnect::{
    ConnectionState, ReconnectConfig, ReconnectConfigBuilder, ReconnectLayer, ReconnectPolicy, ReconnectService,
};
use tower_resilience_retry::FnInterval;

type RErr = <ReconnectService<Inner> as Service<u64>>::Error;

#[derive(Debug, PartialEq)]
enum Out {
    Ok(u64),
    Max(u32, String),
    Failed(String),
    NoRetry(String),
    Svc(String),
    Hang,
}

fn conv(r: Result<u64, RErr>) -> Out {
    // ReconnectError is not re-exported: classify through Display / source
    match r {
        Ok(v) => Out::Ok(v),
        Err(e) => {
            let s = e.to_string();
            let src = std::error::Error::source(&e).map(|x| x.to_string()).unwrap_or_default();
            if s.starts_with("max reconnection attempts (") {
                let n: u32 = s["max reconnection attempts (".len()..].split(')').next().unwrap().parse().unwrap();
                Out::Max(n, src)
            } else if s.starts_with("connection failed (no retry): ") {
                Out::NoRetry(src)
            } else if s.starts_with("connection failed: ") {
                Out::Failed(src)
            } else if s.starts_with("service error: ") {
                Out::Svc(src)
            } else {
                panic!("unknown error text {s}")
            }
        }
    }
}

async fn one<S>(svc: &mut S, req: u64) -> Out
where
    S: Service<u64, Response = u64, Error = RErr>,
{
    let fut = async {
        svc.ready().await?;
        svc.call(req).await
    };
    match tokio::time::timeout(Duration::from_secs(86_400 * 600), fut).await {
        Ok(r) => conv(r),
        Err(_) => Out::Hang,
    }
}

fn cb() -> ReconnectConfigBuilder {
    ReconnectConfig::builder()
}

fn fails(k: usize, e: &'static str, then: Step) -> Vec<Step> {
    let mut v = vec![Step::Err(e); k];
    v.push(then);
    v
}

#[tokio::test(start_paused = true)]
async fn max_attempts_extremes() {
    for max in [Some(0u32), Some(1), Some(2), Some(5), Some(u32::MAX - 1), Some(u32::MAX), None] {
        for k in [0usize, 1, 2, 3, 8] {
            for route in 0..3 {
                let (inner, sh) = Inner::new(fails(k, "c", Step::Ok(4)), None);
                let bl = cb().policy(ReconnectPolicy::fixed(Duration::from_millis(1)));
                let bl = match (max, route) {
                    (Some(m), 0) => bl.max_attempts(m),
                    (Some(m), 1) => bl.unlimited_attempts().max_attempts(77).max_attempts(m),
                    (Some(m), _) => ReconnectConfigBuilder::new().max_attempts(m).policy(ReconnectPolicy::none()).policy(ReconnectPolicy::fixed(Duration::from_millis(1))),
                    (None, 0) => bl,
                    (None, 1) => bl.max_attempts(0).unlimited_attempts(),
                    (None, _) => bl.unlimited_attempts().unlimited_attempts(),
                };
                let layer = ReconnectLayer::new(bl.build());
                let mut svc = layer.layer(inner);
                let out = one(&mut svc, 3).await;
                let allowed = max.map(|m| m as usize + 1).unwrap_or(usize::MAX);
                let calls = sh.calls.load(Ordering::SeqCst);
                assert_eq!(calls, (k + 1).min(allowed), "PROBE max={max:?} k={k} route={route}");
                if k + 1 <= allowed {
                    assert_eq!(out, Out::Ok(4), "PROBE max={max:?} k={k}");
                    assert_eq!(layer.state().state(), ConnectionState::Connected);
                    assert_eq!(svc.state().state(), ConnectionState::Connected);
                } else {
                    assert_eq!(out, Out::Max(max.unwrap() + 1, "c".into()), "PROBE max={max:?} k={k}");
                    assert_ne!(layer.state().state(), ConnectionState::Connected);
                }
                assert_eq!(sh.contract_violations.load(Ordering::SeqCst), 0);
                assert!(sh.log.lock().unwrap().iter().all(|(r, _)| *r == 3));
            }
        }
    }
}

#[tokio::test(start_paused = true)]
async fn policies_and_delays() {
    let ms = Duration::from_millis;
    let cases: Vec<(ReconnectPolicy, Vec<Duration>)> = vec![
        (ReconnectPolicy::fixed(Duration::ZERO), vec![Duration::ZERO; 4]),
        (ReconnectPolicy::fixed(Duration::from_nanos(1)), vec![Duration::from_nanos(1); 4]),
        (ReconnectPolicy::fixed(Duration::from_secs(86_400 * 100)), vec![Duration::from_secs(86_400 * 100); 4]),
        (ReconnectPolicy::default(), vec![ms(200), ms(400), ms(800), ms(1600)]),
        (ReconnectPolicy::exponential(ms(100), ms(50)), vec![ms(50); 4]),
        (ReconnectPolicy::exponential(Duration::ZERO, ms(50)), vec![Duration::ZERO; 4]),
        (ReconnectPolicy::exponential(ms(1), Duration::MAX), vec![ms(2), ms(4), ms(8), ms(16)]),
        (ReconnectPolicy::exponential_random(ms(100), Duration::from_secs(1), 0.0), vec![ms(200), ms(400), ms(800), ms(1000)]),
        (ReconnectPolicy::exponential_random(ms(100), Duration::from_secs(1), 1.0), vec![Duration::ZERO; 4]),
        (ReconnectPolicy::Custom(Arc::new(FnInterval::new(|a| Duration::from_micros(1500 * a as u64)))), vec![Duration::from_micros(1500), ms(3), Duration::from_micros(4500), ms(6)]),
    ];
    for (i, (p, lows)) in cases.into_iter().enumerate() {
        let (inner, sh) = Inner::new(fails(4, "c", Step::Ok(1)), None);
        *sh.start.lock().unwrap() = Some(tokio::time::Instant::now());
        let layer = ReconnectLayer::new(cb().policy(p).build());
        let mut svc = layer.layer(inner);
        assert_eq!(one(&mut svc, 1).await, Out::Ok(1), "PROBE case {i}");
        let log = sh.log.lock().unwrap().clone();
        assert_eq!(log.len(), 5);
        for (j, lo) in lows.iter().enumerate() {
            let gap = log[j + 1].1 - log[j].1;
            assert!(gap >= *lo, "PROBE case {i} retry {j} after {gap:?} < {lo:?}");
        }
    }
    // None: fail at once, one call
    let (inner, sh) = Inner::new(vec![Step::Err("c")], None);
    let mut svc = ReconnectLayer::new(cb().policy(ReconnectPolicy::none()).build()).layer(inner);
    assert_eq!(one(&mut svc, 1).await, Out::Failed("c".into()));
    assert_eq!(sh.calls.load(Ordering::SeqCst), 1);
    assert_ne!(svc.state().state(), ConnectionState::Connected);
}

#[tokio::test(start_paused = true)]
async fn duration_max_delay_no_panic() {
    for p in [
        ReconnectPolicy::fixed(Duration::MAX),
        ReconnectPolicy::exponential(Duration::MAX, Duration::MAX),
        ReconnectPolicy::exponential_random(Duration::MAX, Duration::MAX, 1.0),
    ] {
        let (inner, sh) = Inner::new(vec![Step::Err("c"), Step::Ok(1)], None);
        let mut svc = ReconnectLayer::new(cb().policy(p).build()).layer(inner);
        svc.ready().await.unwrap();
        let mut f = Box::pin(svc.call(1));
        for _ in 0..4 {
            assert!(futures::poll!(&mut f).is_pending());
            assert_ne!(svc.state().state(), ConnectionState::Connected, "PROBE connected while handling a failure");
            tokio::time::advance(Duration::from_secs(86_400 * 365)).await;
        }
        assert_eq!(sh.calls.load(Ordering::SeqCst), 1);
    }
}

#[tokio::test(start_paused = true)]
async fn predicates_and_retry_flag() {
    // predicate set twice / connection_errors_only then custom / custom then connection_errors_only
    let (inner, sh) = Inner::new(vec![Step::Err("Connection REFUSED by peer"), Step::Err("timeout"), Step::Ok(1)], None);
    let mut svc = ReconnectLayer::new(
        cb().reconnect_predicate(|_| false).connection_errors_only().policy(ReconnectPolicy::fixed(Duration::ZERO)).build(),
    )
    .layer(inner);
    assert_eq!(one(&mut svc, 1).await, Out::Svc("timeout".into()));
    assert_eq!(sh.calls.load(Ordering::SeqCst), 2);

    let (inner, sh) = Inner::new(vec![Step::Err("broken pipe")], None);
    let mut svc = ReconnectLayer::new(cb().connection_errors_only().reconnect_predicate(|_| false).build()).layer(inner);
    assert_eq!(one(&mut svc, 1).await, Out::Svc("broken pipe".into()));
    assert_eq!(sh.calls.load(Ordering::SeqCst), 1);

    // retry flag off, every max
    for max in [Some(0u32), Some(1), None] {
        let (inner, sh) = Inner::new(vec![Step::Err("c"), Step::Ok(1)], None);
        let mut bl = cb().retry_on_reconnect(true).retry_on_reconnect(false).policy(ReconnectPolicy::fixed(Duration::from_millis(5)));
        if let Some(m) = max {
            bl = bl.max_attempts(m);
        }
        let t0 = tokio::time::Instant::now();
        let mut svc = ReconnectLayer::new(bl.build()).layer(inner);
        let out = one(&mut svc, 1).await;
        assert_eq!(sh.calls.load(Ordering::SeqCst), 1);
        if max == Some(0) {
            assert_eq!(out, Out::Max(1, "c".into()));
        } else {
            assert_eq!(out, Out::NoRetry("c".into()));
            assert!(tokio::time::Instant::now() - t0 >= Duration::from_millis(5));
        }
    }
    // default layer constructors
    let (inner, _sh) = Inner::new(vec![Step::Ok(1)], None);
    let l = ReconnectLayer::default();
    assert_eq!(l.state().state(), ConnectionState::Disconnected);
    let mut svc = l.clone().layer(inner);
    assert_eq!(one(&mut svc, 1).await, Out::Ok(1));
    assert_eq!(l.state().state(), ConnectionState::Connected);
    assert!(svc.config().retry_on_reconnect() && svc.config().max_attempts().is_none());
    let _ = format!("{:?} {:?} {:?}", l, svc.config(), ReconnectConfigBuilder::new());
    let _c2 = svc.config().clone();
}

#[tokio::test(start_paused = true)]
async fn readiness_and_limits() {
    quiet_panics();
    let (inner, sh) = Inner::new(fails(2, "c", Step::Ok(9)), None);
    *sh.readies.lock().unwrap() = vec![Ready::PendingThenOk(2), Ready::PendingThenOk(300), Ready::PendingThenOk(1)].into();
    sh.strict_panic.store(true, Ordering::SeqCst);
    let mut svc = ReconnectLayer::new(cb().policy(ReconnectPolicy::fixed(Duration::ZERO)).build()).layer(inner);
    assert_eq!(one(&mut svc, 1).await, Out::Ok(9));
    assert_eq!(sh.calls.load(Ordering::SeqCst), 3);

    // readiness error at the outer poll_ready and before a retry
    let (inner, sh) = Inner::new(fails(2, "c", Step::Ok(9)), None);
    *sh.readies.lock().unwrap() = vec![Ready::Err("r0"), Ready::Ok, Ready::Err("r1")].into();
    let mut svc = ReconnectLayer::new(cb().policy(ReconnectPolicy::fixed(Duration::ZERO)).build()).layer(inner);
    assert_eq!(one(&mut svc, 1).await, Out::Svc("ready:r0".into()));
    assert_eq!(sh.calls.load(Ordering::SeqCst), 0);
    assert_eq!(one(&mut svc, 1).await, Out::Svc("ready:r1".into()));
    assert_eq!(sh.calls.load(Ordering::SeqCst), 1);
    *sh.steps.lock().unwrap() = vec![Step::Ok(5)].into();
    assert_eq!(one(&mut svc, 2).await, Out::Ok(5));
    assert_eq!(sh.contract_violations.load(Ordering::SeqCst), 0);

    // over ConcurrencyLimit(1): retries, a dropped sleeping future, a dropped running call
    let (inner, sh) = Inner::new(fails(2, "c", Step::Ok(9)), Some(Step::Ok(10)));
    let lim = tower::limit::ConcurrencyLimit::new(inner, 1);
    let mut svc = ReconnectLayer::new(cb().policy(ReconnectPolicy::fixed(Duration::from_millis(1))).build()).layer(lim);
    let r = tokio::time::timeout(Duration::from_secs(60), async {
        svc.ready().await?;
        svc.call(1).await
    })
    .await
    .expect("PROBE hang over ConcurrencyLimit");
    assert_eq!(conv_generic(r), "ok 9");
    *sh.steps.lock().unwrap() = vec![Step::Err("c")].into();
    svc.ready().await.unwrap();
    let mut f = Box::pin(svc.call(2));
    assert!(futures::poll!(&mut f).is_pending());
    drop(f);
    let r = tokio::time::timeout(Duration::from_secs(60), async {
        svc.ready().await?;
        svc.call(3).await
    })
    .await
    .expect("PROBE capacity lost after dropping a sleeping reconnect future");
    assert_eq!(conv_generic(r), "ok 10");
    *sh.steps.lock().unwrap() = vec![Step::Hang].into();
    svc.ready().await.unwrap();
    let mut f = Box::pin(svc.call(2));
    assert!(futures::poll!(&mut f).is_pending());
    drop(f);
    let r = tokio::time::timeout(Duration::from_secs(60), async {
        svc.ready().await?;
        svc.call(3).await
    })
    .await
    .expect("PROBE capacity lost after dropping a running call");
    assert_eq!(conv_generic(r), "ok 10");
    assert_eq!(sh.contract_violations.load(Ordering::SeqCst), 0);
}

fn conv_generic<E: std::fmt::Display>(r: Result<u64, E>) -> String {
    match r {
        Ok(v) => format!("ok {v}"),
        Err(e) => format!("err {e}"),
    }
}

#[tokio::test(start_paused = true)]
async fn user_code_panics() {
    quiet_panics();
    for which in 0..4 {
        let (inner, sh) = Inner::new(vec![], Some(Step::Err("c")));
        let bl = cb().policy(ReconnectPolicy::fixed(Duration::from_millis(1))).max_attempts(3);
        let bl = match which {
            0 => bl.reconnect_predicate(|_| panic!("pred")),
            1 => bl.policy(ReconnectPolicy::Custom(Arc::new(FnInterval::new(|_| panic!("interval"))))),
            _ => bl,
        };
        if which == 2 {
            *sh.steps.lock().unwrap() = vec![Step::Err("c"), Step::PanicSync].into();
        }
        if which == 3 {
            *sh.steps.lock().unwrap() = vec![Step::Err("c"), Step::PanicFut].into();
        }
        let lim = tower::limit::ConcurrencyLimit::new(inner, 1);
        let mut svc = ReconnectLayer::new(bl.build()).layer(lim);
        let r = std::panic::AssertUnwindSafe(async {
            svc.ready().await?;
            svc.call(1).await
        })
        .catch_unwind()
        .await;
        assert!(r.is_err(), "PROBE case {which}: expected a panic");
        *sh.steps.lock().unwrap() = vec![Step::Ok(5)].into();
        let r = tokio::time::timeout(Duration::from_secs(60), async {
            svc.ready().await?;
            svc.call(2).await
        })
        .await
        .expect("PROBE service hangs after a panic in user code");
        assert_eq!(conv_generic(r), "ok 5", "case {which}");
    }
}

#[test]
fn real_clock() {
    let rt = tokio::runtime::Builder::new_multi_thread().worker_threads(2).enable_all().build().unwrap();
    rt.block_on(async {
        for d in [Duration::ZERO, Duration::from_nanos(1), Duration::from_micros(2500)] {
            let (inner, sh) = Inner::new(fails(3, "c", Step::Ok(1)), None);
            *sh.start.lock().unwrap() = Some(tokio::time::Instant::now());
            let mut svc = ReconnectLayer::new(cb().policy(ReconnectPolicy::fixed(d)).max_attempts(u32::MAX).build()).layer(inner);
            assert_eq!(one(&mut svc, 5).await, Out::Ok(1));
            let log = sh.log.lock().unwrap().clone();
            assert_eq!(log.len(), 4);
            for w in log.windows(2) {
                assert!(w[1].1 - w[0].1 >= d, "PROBE retry before delay");
            }
        }
    });
}

#[cfg(feature = "reconnect-tracing")]
mod callbacks {
    use super::*;
    use std::sync::atomic::AtomicUsize;

    async fn case(depth: u32) -> Vec<String> {
        quiet_panics();
        let mut bad = Vec::new();
        let cases: Vec<(Vec<Step>, Option<u32>, Out, usize)> = vec![
            (vec![Step::Ok(5)], None, Out::Ok(5), 1),
            (fails(2, "c", Step::Ok(5)), None, Out::Ok(5), 3),
            (fails(5, "c", Step::Ok(5)), Some(1), Out::Max(2, "c".into()), 2),
            (vec![Step::Err("c"), Step::Err("n")], None, Out::Svc("n".into()), 2),
        ];
        for (i, (script, max, want, calls)) in cases.into_iter().enumerate() {
            let (inner, sh) = Inner::new(script, None);
            let seen = Arc::new(AtomicUsize::new(0));
            let s1 = seen.clone();
            let s2 = seen.clone();
            let mut bl = cb()
                .policy(ReconnectPolicy::fixed(Duration::from_millis(1)))
                .reconnect_predicate(|e| e.to_string() != "n")
                .on_reconnect(|_| {})
                .on_reconnect(move |_| {
                    s1.fetch_add(1, Ordering::SeqCst);
                    std::panic::panic_any(Bomb(depth))
                })
                .on_state_change(|_, _| {})
                .on_state_change(move |_, _| {
                    s2.fetch_add(1, Ordering::SeqCst);
                    std::panic::panic_any(Bomb(depth))
                });
            if let Some(m) = max {
                bl = bl.max_attempts(m);
            }
            let mut svc = ReconnectLayer::new(bl.build()).layer(inner);
            let r = std::panic::AssertUnwindSafe(one(&mut svc, 1)).catch_unwind().await;
            match r {
                Err(p) => {
                    std::mem::forget(p);
                    bad.push(format!("depth {depth} case {i}: call PANICKED (wanted {want:?}), inner calls {}", sh.calls.load(Ordering::SeqCst)));
                }
                Ok(out) => {
                    if out != want || sh.calls.load(Ordering::SeqCst) != calls {
                        bad.push(format!("depth {depth} case {i}: {out:?} want {want:?} calls {}", sh.calls.load(Ordering::SeqCst)));
                    }
                    if seen.load(Ordering::SeqCst) == 0 {
                        bad.push(format!("depth {depth} case {i}: callbacks never ran"));
                    }
                }
            }
        }
        bad
    }

    #[tokio::test(start_paused = true)]
    async fn callbacks_panic_plain_and_bomb1() {
        let mut bad = case(0).await;
        bad.extend(case(1).await);
        for x in &bad {
            eprintln!("{x}");
        }
        assert!(bad.is_empty(), "PROBE {} violations", bad.len());
    }

    #[tokio::test(start_paused = true)]
    async fn callbacks_panic_nested_bomb() {
        let bad = case(2).await;
        for x in &bad {
            eprintln!("{x}");
        }
        assert!(bad.is_empty(), "PROBE {} violations", bad.len());
    }
}
