//! Observations outside the property texts (reported as such) and the full table for the AIMD builder panic.
use std::time::Duration;
use tower_resilience_reconnect::ReconnectState;
use tower_resilience_retry::RetryBudgetBuilder;

#[test]
fn aimd_builder_table() {
    std::panic::set_hook(Box::new(|_| {}));
    let mut panicked = Vec::new();
    for max in [0usize, 1, 5, 9, 10, 11, 1000] {
        let r = std::panic::catch_unwind(|| RetryBudgetBuilder::new().aimd().max_budget(max).build().balance());
        match r {
            Ok(b) => eprintln!("aimd().max_budget({max}).build()  -> ok, balance {b}"),
            Err(p) => {
                let m = p.downcast_ref::<String>().cloned().unwrap_or_default();
                eprintln!("aimd().max_budget({max}).build()  -> PANIC: {m}");
                panicked.push(max);
            }
        }
    }
    for min in [0usize, 10, 1000, 1001, 5000] {
        let r = std::panic::catch_unwind(|| RetryBudgetBuilder::new().aimd().min_budget(min).build().balance());
        match r {
            Ok(b) => eprintln!("aimd().min_budget({min}).build()  -> ok, balance {b}"),
            Err(p) => {
                let m = p.downcast_ref::<String>().cloned().unwrap_or_default();
                eprintln!("aimd().min_budget({min}).build()  -> PANIC: {m}");
            }
        }
    }
    assert!(panicked.is_empty(), "max_budget values that panic in build(): {panicked:?}");
}

#[test]
fn time_since_connected_observation() {
    let s = ReconnectState::new();
    assert!(s.time_since_connected().is_none());
    s.mark_connected();
    std::thread::sleep(Duration::from_millis(30));
    eprintln!("time_since_connected 30 ms after mark_connected: {:?}", s.time_since_connected());
}

#[test]
fn aimd_budget_odd_factors() {
    use tower_resilience_retry::{AimdBudget, RetryBudget};
    for fac in [f64::NAN, -1.0, 2.0, f64::INFINITY, f64::NEG_INFINITY, 1e300] {
        let b = AimdBudget::new(2, 20, 3, 7, fac);
        for i in 0..200 {
            if i % 3 == 0 {
                b.deposit();
            } else {
                b.try_withdraw();
            }
            assert!(b.balance() <= 20 && (2..=20).contains(&b.current_max()), "fac {fac}: bal {} cmax {}", b.balance(), b.current_max());
        }
    }
}
