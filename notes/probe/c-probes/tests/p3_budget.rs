//! C08 budgets and C13's AIMD controller at configuration extremes.
use probe_c::*;
use std::sync::atomic::{AtomicU64, Ordering};
use std::sync::Arc;
use tower_resilience_core::aimd::{AimdConfig, AimdController};
use tower_resilience_retry::{AimdBudget, RetryBudget, RetryBudgetBuilder, TokenBucketBudget};

fn built<T>(f: impl FnOnce() -> T) -> Result<T, String> {
    std::panic::catch_unwind(std::panic::AssertUnwindSafe(f)).map_err(|p| {
        p.downcast_ref::<String>()
            .cloned()
            .or_else(|| p.downcast_ref::<&str>().map(|s| s.to_string()))
            .unwrap_or_default()
    })
}

#[test]
fn aimd_builder_small_max_budget() {
    quiet_panics();
    // only the maximum is configured; every maximum balance is inside C08's quantifier
    for max in [0usize, 1, 5, 9, 10, 11] {
        let r = built(|| RetryBudgetBuilder::new().aimd().max_budget(max).build());
        match r {
            Ok(b) => {
                assert!(b.balance() <= max, "PROBE balance {} > max {max}", b.balance());
                eprintln!("aimd().max_budget({max}) ok, balance {}", b.balance());
            }
            Err(e) => panic!("PROBE aimd().max_budget({max}).build() panicked: {e}"),
        }
    }
}

#[test]
fn aimd_builder_large_min_budget() {
    quiet_panics();
    for min in [1000usize, 1001, usize::MAX] {
        let r = built(|| RetryBudgetBuilder::new().aimd().min_budget(min).build());
        if let Err(e) = r {
            panic!("PROBE aimd().min_budget({min}).build() panicked: {e}");
        }
    }
}

fn drain(b: &dyn RetryBudget, cap: usize) -> usize {
    let mut n = 0;
    while n < cap && b.try_withdraw() {
        n += 1;
    }
    n
}

#[test]
fn token_bucket_extremes() {
    for (max, ini) in [
        (0usize, 0usize),
        (0, 5),
        (1, 0),
        (1, 1),
        (1, usize::MAX),
        (5, 7),
        (usize::MAX, 0),
        (usize::MAX, usize::MAX),
        (usize::MAX / 1000, usize::MAX / 1000),
        (usize::MAX / 1000 + 1, usize::MAX / 1000 + 1),
    ] {
        for rate in [0.0, -1.0, f64::NAN, f64::INFINITY, 10.0] {
            let b = TokenBucketBudget::new(rate, max, ini);
            assert!(b.balance() <= max, "PROBE initial balance {} > max {max}", b.balance());
            let start = b.balance();
            let g = drain(&b, 20);
            assert!(g <= start, "PROBE granted {g} from {start}");
            for _ in 0..30 {
                b.deposit();
                assert!(b.balance() <= max, "PROBE balance above max");
            }
            let after = b.balance();
            assert!(after <= start - g.min(start) + 30);
            let g2 = drain(&b, 100);
            assert!(g2 <= after, "PROBE granted {g2} of {after}");
        }
    }
    // builder: setters twice, initial before max, defaults
    let b = RetryBudgetBuilder::new()
        .token_bucket()
        .initial_tokens(50)
        .max_tokens(7)
        .max_tokens(3)
        .tokens_per_second(f64::NAN)
        .build();
    assert_eq!(b.balance(), 3);
    let b = RetryBudgetBuilder::default().token_bucket().build();
    assert_eq!(b.balance(), 100);
    let b = RetryBudgetBuilder::new().token_bucket().max_tokens(0).build();
    assert!(!b.try_withdraw());
    b.deposit();
    assert!(!b.try_withdraw());
}

#[test]
fn aimd_budget_extremes() {
    quiet_panics();
    let mut bad = Vec::new();
    for (min, max) in [(0usize, 0usize), (0, 1), (1, 1), (0, 10), (10, 10), (3, 1000), (0, usize::MAX), (usize::MAX, usize::MAX)] {
        for dep in [0usize, 1, 7, usize::MAX] {
            for wd in [0usize, 1, 3, usize::MAX] {
                for fac in [0.0, f64::MIN_POSITIVE, 0.5, 0.999_999_999_999_999_9, 1.0] {
                    let r = built(|| AimdBudget::new(min, max, dep, wd, fac));
                    let b = match r {
                        Ok(b) => b,
                        Err(e) => {
                            bad.push(format!("construction panic min={min} max={max}: {e}"));
                            continue;
                        }
                    };
                    let r = built(|| {
                        let mut v = Vec::new();
                        let mut funded: u128 = max as u128;
                        let mut spent: u128 = 0;
                        for round in 0..4 {
                            for _ in 0..12 {
                                if b.try_withdraw() {
                                    spent += wd as u128;
                                }
                                if b.balance() > max || b.current_max() > max || b.current_max() < min {
                                    v.push(format!("bounds bal={} cmax={}", b.balance(), b.current_max()));
                                }
                            }
                            for _ in 0..(round + 1) * 3 {
                                b.deposit();
                                funded += dep as u128;
                                if b.balance() > max || b.current_max() > max || b.current_max() < min {
                                    v.push(format!("bounds bal={} cmax={}", b.balance(), b.current_max()));
                                }
                            }
                            if spent + b.balance() as u128 > funded {
                                v.push(format!("conservation spent={spent} bal={} funded={funded}", b.balance()));
                            }
                        }
                        v
                    });
                    match r {
                        Ok(v) => {
                            for x in v.into_iter().take(1) {
                                bad.push(format!("min={min} max={max} dep={dep} wd={wd} fac={fac}: {x}"));
                            }
                        }
                        Err(e) => bad.push(format!("PANIC min={min} max={max} dep={dep} wd={wd} fac={fac}: {e}")),
                    }
                }
            }
        }
    }
    for b in bad.iter().take(30) {
        eprintln!("{b}");
    }
    assert!(bad.is_empty(), "PROBE {} violations", bad.len());
}

#[test]
fn budgets_under_threads() {
    // conservation with real threads: 4 withdrawers, 3 depositors
    for which in 0..3 {
        let (b, cost, amount, initial): (Arc<dyn RetryBudget>, u64, u64, u64) = match which {
            0 => (Arc::new(TokenBucketBudget::new(1.0, 50, 50)), 1, 1, 50),
            1 => (Arc::new(AimdBudget::new(0, 50, 2, 3, 0.5)), 3, 2, 50),
            _ => (RetryBudgetBuilder::new().aimd().max_budget(64).min_budget(1).deposit_amount(5).build(), 1, 5, 64),
        };
        let granted = Arc::new(AtomicU64::new(0));
        let deposits = Arc::new(AtomicU64::new(0));
        let mut hs = Vec::new();
        for _ in 0..4 {
            let b = b.clone();
            let g = granted.clone();
            hs.push(std::thread::spawn(move || {
                for _ in 0..200_000 {
                    if b.try_withdraw() {
                        g.fetch_add(1, Ordering::SeqCst);
                    }
                }
            }));
        }
        for _ in 0..3 {
            let b = b.clone();
            let d = deposits.clone();
            hs.push(std::thread::spawn(move || {
                for _ in 0..100_000 {
                    d.fetch_add(1, Ordering::SeqCst);
                    b.deposit();
                    assert!(b.balance() <= 64);
                }
            }));
        }
        for h in hs {
            h.join().unwrap();
        }
        let lhs = granted.load(Ordering::SeqCst) * cost + b.balance() as u64;
        let rhs = initial + deposits.load(Ordering::SeqCst) * amount;
        eprintln!("budget {which}: granted*cost+bal={lhs} funded={rhs}");
        assert!(lhs <= rhs, "PROBE conservation violated {lhs} > {rhs}");
    }
}

#[test]
fn controller_extremes() {
    quiet_panics();
    let mut bad = Vec::new();
    for (min, ini, max) in [
        (0usize, 0usize, 0usize),
        (0, 5, 0),
        (1, 1, 1),
        (1, 0, 100),
        (1, 1000, 100),
        (0, usize::MAX, usize::MAX),
        (usize::MAX, 0, usize::MAX),
        (usize::MAX - 1, 3, usize::MAX),
        ((1 << 53) + 1, 1 << 60, (1 << 53) + 3),
    ] {
        for inc in [0usize, 1, usize::MAX] {
            for fac in [0.0, f64::MIN_POSITIVE, 0.5, 0.999_999_999_999_999_9, 1.0] {
                let cfg = AimdConfig::new()
                    .with_initial_limit(ini)
                    .with_max_limit(max)
                    .with_min_limit(min)
                    .with_increase_by(inc)
                    .with_decrease_factor(fac);
                let c = match built(|| AimdController::new(cfg.clone())) {
                    Ok(c) => c,
                    Err(e) => {
                        bad.push(format!("construct {min} {ini} {max}: {e}"));
                        continue;
                    }
                };
                let check = |c: &AimdController, what: &str, bad: &mut Vec<String>| {
                    let l = c.limit();
                    if l < min || l > max {
                        bad.push(format!("{what}: limit {l} outside [{min},{max}] inc={inc} fac={fac}"));
                    }
                };
                check(&c, "new", &mut bad);
                let r = built(|| {
                    let mut bad = Vec::new();
                    for i in 0..40 {
                        match i % 7 {
                            0 | 1 => c.record_success(),
                            2 => c.record_failure(),
                            3 => c.record_successes(usize::MAX),
                            4 => c.record_successes(0),
                            5 => {
                                let d = c.clone();
                                d.record_failure();
                                check(&d, "clone", &mut bad);
                                d.reset();
                                check(&d, "clone reset", &mut bad);
                            }
                            _ => c.record_failure(),
                        }
                        check(&c, "step", &mut bad);
                    }
                    c.reset();
                    check(&c, "reset", &mut bad);
                    assert_eq!(c.min_limit(), min);
                    assert_eq!(c.max_limit(), max);
                    let _ = format!("{:?}", c);
                    bad
                });
                match r {
                    Ok(v) => bad.extend(v.into_iter().take(1)),
                    Err(e) => bad.push(format!("PANIC {min} {ini} {max} inc={inc} fac={fac}: {e}")),
                }
            }
        }
    }
    for b in bad.iter().take(30) {
        eprintln!("{b}");
    }
    assert!(bad.is_empty(), "PROBE {} violations", bad.len());
}

#[test]
fn controller_threads() {
    let c = Arc::new(AimdController::new(
        AimdConfig::new().with_min_limit(3).with_max_limit(17).with_initial_limit(9).with_increase_by(5).with_decrease_factor(0.3),
    ));
    let mut hs = Vec::new();
    for t in 0..6 {
        let c = c.clone();
        hs.push(std::thread::spawn(move || {
            for i in 0..200_000 {
                match (i + t) % 4 {
                    0 => c.record_success(),
                    1 => c.record_failure(),
                    2 => c.record_successes(3),
                    _ => c.reset(),
                }
                let l = c.limit();
                assert!((3..=17).contains(&l), "PROBE limit {l}");
            }
        }));
    }
    for h in hs {
        h.join().unwrap();
    }
}
