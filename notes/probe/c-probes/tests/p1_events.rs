//! C20 listeners clause on the bare EventListeners (core/events.rs).
use probe_c::*;
use std::sync::atomic::{AtomicUsize, Ordering};
use std::sync::Arc;
use std::time::Instant;
use tower_resilience_core::events::{EventListeners, FnListener, ResilienceEvent};

#[derive(Debug, Clone)]
struct Ev;
impl ResilienceEvent for Ev {
    fn event_type(&self) -> &'static str {
        "ev"
    }
    fn timestamp(&self) -> Instant {
        Instant::now()
    }
    fn pattern_name(&self) -> &str {
        "p"
    }
}

fn run(depth: u32) -> (bool, usize) {
    quiet_panics();
    let seen = Arc::new(AtomicUsize::new(0));
    let mut l: EventListeners<Ev> = EventListeners::new();
    let s = seen.clone();
    l.add(FnListener::new(move |_e: &Ev| {
        s.fetch_add(1, Ordering::SeqCst);
    }));
    l.add(FnListener::new(move |_e: &Ev| {
        std::panic::panic_any(Bomb(depth));
    }));
    let s = seen.clone();
    l.add(FnListener::new(move |_e: &Ev| {
        s.fetch_add(1, Ordering::SeqCst);
    }));
    let r = std::panic::catch_unwind(std::panic::AssertUnwindSafe(|| l.emit(&Ev)));
    let ok = r.is_ok();
    if let Err(p) = r {
        std::mem::forget(p); // do not let the escaped payload blow up the test harness
    }
    (ok, seen.load(Ordering::SeqCst))
}

#[test]
fn payload_plain() {
    assert_eq!(run(0), (true, 2));
}
#[test]
fn payload_drop_panics_once() {
    assert_eq!(run(1), (true, 2));
}
#[test]
fn payload_drop_panics_twice() {
    // Drop of the payload panics with a payload whose Drop panics again
    assert_eq!(run(2), (true, 2), "emit escaped or starved listeners");
}
#[test]
fn payload_drop_panics_5() {
    assert_eq!(run(5), (true, 2), "emit escaped or starved listeners");
}

#[test]
fn all_subsets_of_6() {
    quiet_panics();
    for mask in 0u32..64 {
        let seen = Arc::new(AtomicUsize::new(0));
        let mut l: EventListeners<Ev> = EventListeners::new();
        for i in 0..6 {
            let s = seen.clone();
            l.add(FnListener::new(move |_e: &Ev| {
                s.fetch_add(1, Ordering::SeqCst);
                if mask >> i & 1 == 1 {
                    if i % 2 == 0 {
                        panic!("x")
                    } else {
                        std::panic::panic_any(Bomb(1))
                    }
                }
            }));
        }
        let l2 = l.clone();
        for _ in 0..3 {
            l.emit(&Ev);
        }
        l2.emit(&Ev);
        assert_eq!(seen.load(Ordering::SeqCst), 24, "mask {mask}");
        assert_eq!(l.len(), 6);
    }
}

#[test]
fn empty_and_default() {
    let l: EventListeners<Ev> = EventListeners::default();
    assert!(l.is_empty());
    l.emit(&Ev);
}
