//! C05 / C20 (retry part) at configuration extremes, through the real RetryLayer.
use futures::FutureExt;
use probe_c::*;
use std::sync::atomic::{AtomicUsize, Ordering};
use std::sync::Arc;
use std::time::Duration;
use tower::{Layer, Service, ServiceExt};
use tower_resilience_retry::{
    ExponentialRandomBackoff, FnInterval, RetryBudget, RetryBudgetBuilder, RetryLayer, TokenBucketBudget,
};

type B = tower_resilience_retry::RetryConfigBuilder<u64, PErr>;

fn b() -> B {
    RetryLayer::<u64, PErr>::builder()
}

async fn one<S>(svc: &mut S, req: u64) -> Result<u64, PErr>
where
    S: Service<u64, Response = u64, Error = PErr>,
{
    let fut = async {
        svc.ready().await?;
        svc.call(req).await
    };
    match tokio::time::timeout(Duration::from_secs(3600), fut).await {
        Ok(r) => r,
        Err(_) => Err(PErr("PROBE-HANG".into())),
    }
}

fn fails(k: usize, then: Step) -> Vec<Step> {
    let mut v = vec![Step::Err("e"); k];
    v.push(then);
    v
}

#[tokio::test(start_paused = true)]
async fn max_attempts_extremes() {
    for max in [0usize, 1, 2, 3, 7, usize::MAX - 1, usize::MAX] {
        for k in [0usize, 1, 2, 6, 9] {
            for route in 0..3 {
                let (inner, sh) = Inner::new(fails(k, Step::Ok(42)), Some(Step::Ok(43)));
                let bl = b().fixed_backoff(Duration::from_millis(1));
                let bl = match route {
                    0 => bl.max_attempts(max),
                    1 => bl.max_attempts(99).max_attempts_fn(move |_r| max),
                    _ => bl.max_attempts_fn(|_r| 1).max_attempts_fn(|r: &u64| *r as usize).max_attempts(5).max_attempts_fn(move |_| max),
                };
                let mut svc = bl.build().layer(inner);
                let r = one(&mut svc, 7).await;
                let allowed = max.max(1);
                let want_calls = (k + 1).min(allowed);
                let want = if k + 1 <= allowed { Ok(42) } else { Err(PErr("e".into())) };
                assert_eq!(sh.calls.load(Ordering::SeqCst), want_calls, "PROBE max={max} k={k} route={route}");
                assert_eq!(r, want, "PROBE max={max} k={k} route={route}");
                assert_eq!(sh.contract_violations.load(Ordering::SeqCst), 0);
                assert!(sh.log.lock().unwrap().iter().all(|(r, _)| *r == 7));
            }
        }
    }
}

#[tokio::test(start_paused = true)]
async fn per_request_max() {
    // the request value is its own max_attempts
    let (inner, sh) = Inner::new(vec![], Some(Step::Err("e")));
    let mut svc = b().max_attempts_fn(|r: &u64| *r as usize).fixed_backoff(Duration::ZERO).build().layer(inner);
    let mut total = 0;
    for req in [0u64, 1, 2, 5, 0, 300] {
        let before = sh.calls.load(Ordering::SeqCst);
        let r = one(&mut svc, req).await;
        assert_eq!(r, Err(PErr("e".into())));
        let made = sh.calls.load(Ordering::SeqCst) - before;
        assert_eq!(made as u64, req.max(1), "PROBE per-request max {req}");
        total += made;
    }
    assert_eq!(sh.calls.load(Ordering::SeqCst), total);
    assert_eq!(sh.contract_violations.load(Ordering::SeqCst), 0);
}

#[tokio::test(start_paused = true)]
async fn builder_orders_and_presets() {
    // last setter wins; presets keep their attempts; default backoff 100 ms exponential
    let cases: Vec<(B, usize, Vec<u64>)> = vec![
        (b(), 3, vec![100, 200]),
        (RetryLayer::<u64, PErr>::exponential_backoff(), 3, vec![100, 200]),
        (RetryLayer::<u64, PErr>::aggressive(), 5, vec![50, 100, 200, 400]),
        (RetryLayer::<u64, PErr>::conservative(), 2, vec![500]),
        (RetryLayer::<u64, PErr>::conservative().max_attempts(4), 4, vec![500, 1000, 2000]),
        (b().fixed_backoff(Duration::from_millis(3)).exponential_backoff(Duration::from_millis(7)).max_attempts(4), 4, vec![7, 14, 28]),
        (b().exponential_backoff(Duration::from_millis(7)).fixed_backoff(Duration::from_millis(3)).max_attempts(4), 4, vec![3, 3, 3]),
        (b().backoff(FnInterval::new(|a| Duration::from_millis(10 * (a as u64 + 1)))).max_attempts(4), 4, vec![10, 20, 30]),
        (b().max_attempts(4).backoff(ExponentialRandomBackoff::new(Duration::from_millis(8), 0.0)), 4, vec![8, 16, 32]),
        (RetryLayer::<u64, PErr>::aggressive().name("x").name(String::new()).retry_on(|_| false).retry_on(|_| true), 5, vec![50, 100, 200, 400]),
    ];
    for (i, (bl, max, gaps)) in cases.into_iter().enumerate() {
        let (inner, sh) = Inner::new(vec![], Some(Step::Err("e")));
        *sh.start.lock().unwrap() = Some(tokio::time::Instant::now());
        let layer = bl.build();
        let layer2 = layer.clone();
        let mut svc = layer.layer(inner);
        let r = one(&mut svc, 1).await;
        assert_eq!(r, Err(PErr("e".into())));
        let log = sh.log.lock().unwrap().clone();
        assert_eq!(log.len(), max, "PROBE case {i}");
        for (j, g) in gaps.iter().enumerate() {
            let gap = log[j + 1].1 - log[j].1;
            assert!(gap >= Duration::from_millis(*g) && gap <= Duration::from_millis(*g + 1), "PROBE case {i} gap {j} = {gap:?} want {g} ms");
        }
        // a second service from a clone of the layer behaves the same
        let (inner2, sh2) = Inner::new(vec![], Some(Step::Err("e")));
        let mut svc2 = layer2.layer(inner2);
        let _ = one(&mut svc2, 1).await;
        assert_eq!(sh2.calls.load(Ordering::SeqCst), max, "PROBE case {i} second layer");
    }
}

#[tokio::test(start_paused = true)]
async fn backoff_extremes_paused() {
    for d in [Duration::ZERO, Duration::from_nanos(1), Duration::from_nanos(999_999), Duration::from_secs(86_400 * 365)] {
        let (inner, sh) = Inner::new(fails(3, Step::Ok(1)), None);
        *sh.start.lock().unwrap() = Some(tokio::time::Instant::now());
        let mut svc = b().max_attempts(10).fixed_backoff(d).build().layer(inner);
        assert_eq!(one_long(&mut svc, 5).await, Ok(1));
        let log = sh.log.lock().unwrap().clone();
        assert_eq!(log.len(), 4);
        for w in log.windows(2) {
            assert!(w[1].1 - w[0].1 >= d, "PROBE retry before backoff {d:?}: {:?}", w[1].1 - w[0].1);
        }
    }
}

async fn one_long<S>(svc: &mut S, req: u64) -> Result<u64, PErr>
where
    S: Service<u64, Response = u64, Error = PErr>,
{
    svc.ready().await?;
    svc.call(req).await
}

#[tokio::test(start_paused = true)]
async fn backoff_duration_max_does_not_panic() {
    let (inner, sh) = Inner::new(fails(1, Step::Ok(1)), None);
    let mut svc = b().max_attempts(3).fixed_backoff(Duration::MAX).build().layer(inner);
    svc.ready().await.unwrap();
    let mut fut = svc.call(1);
    for _ in 0..5 {
        assert!(futures::poll!(&mut fut).is_pending());
        tokio::time::advance(Duration::from_secs(86_400 * 365)).await;
    }
    assert_eq!(sh.calls.load(Ordering::SeqCst), 1);
}

#[test]
fn backoff_extremes_real_clock() {
    let rt = tokio::runtime::Builder::new_multi_thread().worker_threads(2).enable_all().build().unwrap();
    rt.block_on(async {
        for d in [Duration::ZERO, Duration::from_nanos(1), Duration::from_micros(1500)] {
            let (inner, sh) = Inner::new(fails(3, Step::Ok(1)), None);
            *sh.start.lock().unwrap() = Some(tokio::time::Instant::now());
            let mut svc = b().max_attempts(usize::MAX).fixed_backoff(d).build().layer(inner);
            assert_eq!(one(&mut svc, 5).await, Ok(1));
            let log = sh.log.lock().unwrap().clone();
            assert_eq!(log.len(), 4);
            for w in log.windows(2) {
                assert!(w[1].1 - w[0].1 >= d, "PROBE retry before backoff");
            }
        }
        // default builder on a real clock: 100 + 200 ms
        let (inner, sh) = Inner::new(vec![], Some(Step::Err("e")));
        *sh.start.lock().unwrap() = Some(tokio::time::Instant::now());
        let mut svc = b().build().layer(inner);
        assert!(one(&mut svc, 5).await.is_err());
        let log = sh.log.lock().unwrap().clone();
        assert_eq!(log.len(), 3);
        assert!(log[1].1 - log[0].1 >= Duration::from_millis(100));
        assert!(log[2].1 - log[1].1 >= Duration::from_millis(200));
    });
}

fn listeners(bl: B, seen: &Arc<AtomicUsize>, depth: u32) -> B {
    let s = seen.clone();
    let s2 = seen.clone();
    let s3 = seen.clone();
    let s4 = seen.clone();
    let s5 = seen.clone();
    bl.on_retry(move |_, _| {
        std::panic::panic_any(Bomb(depth));
    })
    .on_success(move |_| std::panic::panic_any(Bomb(depth)))
    .on_error(move |_| std::panic::panic_any(Bomb(depth)))
    .on_ignored_error(move || std::panic::panic_any(Bomb(depth)))
    .on_budget_exhausted(move |_| std::panic::panic_any(Bomb(depth)))
    .on_retry(move |_, _| {
        s.fetch_add(1, Ordering::SeqCst);
    })
    .on_success(move |_| {
        s2.fetch_add(1, Ordering::SeqCst);
    })
    .on_error(move |_| {
        s3.fetch_add(1, Ordering::SeqCst);
    })
    .on_ignored_error(move || {
        s4.fetch_add(1, Ordering::SeqCst);
    })
    .on_budget_exhausted(move |_| {
        s5.fetch_add(1, Ordering::SeqCst);
    })
}

async fn listener_case(depth: u32) -> Vec<String> {
    quiet_panics();
    let mut bad = Vec::new();
    // (script, predicate refuses "n", budget tokens, expected result, expected events seen by the second listeners)
    let cases: Vec<(Vec<Step>, Option<usize>, Result<u64, PErr>, usize, usize)> = vec![
        (vec![Step::Ok(5)], None, Ok(5), 1, 1),
        (fails(2, Step::Ok(5)), None, Ok(5), 3, 3),
        (fails(5, Step::Ok(5)), None, Err(PErr("e".into())), 3, 3),
        (vec![Step::Err("n")], None, Err(PErr("n".into())), 1, 1),
        (vec![Step::Err("e"), Step::Err("n")], None, Err(PErr("n".into())), 2, 2),
        (fails(5, Step::Ok(5)), Some(1), Err(PErr("e".into())), 2, 2),
        (fails(5, Step::Ok(5)), Some(0), Err(PErr("e".into())), 1, 1),
    ];
    for (i, (script, tokens, want, calls, events)) in cases.into_iter().enumerate() {
        let seen = Arc::new(AtomicUsize::new(0));
        let (inner, sh) = Inner::new(script, None);
        let mut bl = listeners(b().max_attempts(3).fixed_backoff(Duration::from_millis(1)).retry_on(|e: &PErr| e.0 != "n"), &seen, depth);
        if let Some(t) = tokens {
            bl = bl.budget(Arc::new(TokenBucketBudget::new(1.0, 10, t)));
        }
        let mut svc = bl.build().layer(inner);
        let r = std::panic::AssertUnwindSafe(one(&mut svc, 1)).catch_unwind().await;
        match r {
            Err(p) => {
                std::mem::forget(p);
                bad.push(format!("depth {depth} case {i}: call PANICKED (wanted {want:?}), inner calls {}", sh.calls.load(Ordering::SeqCst)));
            }
            Ok(r) => {
                if r != want || sh.calls.load(Ordering::SeqCst) != calls || seen.load(Ordering::SeqCst) != events {
                    bad.push(format!(
                        "depth {depth} case {i}: got {r:?} want {want:?}, calls {} want {calls}, events {} want {events}",
                        sh.calls.load(Ordering::SeqCst),
                        seen.load(Ordering::SeqCst)
                    ));
                }
            }
        }
    }
    bad
}

#[tokio::test(start_paused = true)]
async fn listeners_panic_plain_and_bomb1() {
    let mut bad = listener_case(0).await;
    bad.extend(listener_case(1).await);
    for x in &bad {
        eprintln!("{x}");
    }
    assert!(bad.is_empty(), "PROBE {} violations", bad.len());
}

#[tokio::test(start_paused = true)]
async fn listeners_panic_nested_bomb() {
    let bad = listener_case(2).await;
    for x in &bad {
        eprintln!("{x}");
    }
    assert!(bad.is_empty(), "PROBE {} violations", bad.len());
}

#[tokio::test(start_paused = true)]
async fn readiness_on_retries() {
    quiet_panics();
    // pending readiness before retries
    let (inner, sh) = Inner::new(fails(2, Step::Ok(9)), None);
    *sh.readies.lock().unwrap() = vec![Ready::PendingThenOk(3), Ready::PendingThenOk(200), Ready::PendingThenOk(1)].into();
    sh.strict_panic.store(true, Ordering::SeqCst);
    let mut svc = b().max_attempts(5).fixed_backoff(Duration::ZERO).build().layer(inner);
    assert_eq!(one(&mut svc, 1).await, Ok(9));
    assert_eq!(sh.calls.load(Ordering::SeqCst), 3);
    // readiness failing at the outer poll_ready
    let (inner, sh) = Inner::new(vec![Step::Ok(1)], None);
    *sh.readies.lock().unwrap() = vec![Ready::Err("r0")].into();
    let mut svc = b().build().layer(inner);
    assert_eq!(one(&mut svc, 1).await, Err(PErr("ready:r0".into())));
    assert_eq!(sh.calls.load(Ordering::SeqCst), 0);
    // readiness failing before the first retry: surfaces, no further call
    let (inner, sh) = Inner::new(fails(2, Step::Ok(9)), None);
    *sh.readies.lock().unwrap() = vec![Ready::Ok, Ready::Err("r1")].into();
    let mut svc = b().max_attempts(5).fixed_backoff(Duration::ZERO).build().layer(inner);
    assert_eq!(one(&mut svc, 1).await, Err(PErr("ready:r1".into())));
    assert_eq!(sh.calls.load(Ordering::SeqCst), 1);
    // the service is usable afterwards
    *sh.steps.lock().unwrap() = vec![Step::Ok(77)].into();
    assert_eq!(one(&mut svc, 2).await, Ok(77));
    assert_eq!(sh.contract_violations.load(Ordering::SeqCst), 0);
}

#[tokio::test(start_paused = true)]
async fn clone_between_ready_and_call() {
    let (inner, sh) = Inner::new(fails(1, Step::Ok(9)), Some(Step::Ok(10)));
    let mut svc = b().max_attempts(2).fixed_backoff(Duration::ZERO).build().layer(inner);
    svc.ready().await.unwrap();
    let mut c = svc.clone();
    let f = svc.call(1);
    let g = async {
        c.ready().await.unwrap();
        c.call(2).await
    };
    let (x, y) = futures::join!(f, g);
    assert!(x.is_ok() && y.is_ok());
    assert_eq!(sh.contract_violations.load(Ordering::SeqCst), 0, "PROBE call on unready instance");
}

#[tokio::test(start_paused = true)]
async fn over_tower_limit_and_buffer() {
    use tower::limit::ConcurrencyLimit;
    let (inner, sh) = Inner::new(fails(2, Step::Ok(9)), Some(Step::Ok(10)));
    let mut svc = b().max_attempts(3).fixed_backoff(Duration::from_millis(1)).build().layer(ConcurrencyLimit::new(inner, 1));
    assert_eq!(one(&mut svc, 1).await, Ok(9));
    assert_eq!(sh.calls.load(Ordering::SeqCst), 3);
    // drop a call future in its backoff sleep: capacity must not be lost
    *sh.steps.lock().unwrap() = vec![Step::Err("e")].into();
    svc.ready().await.unwrap();
    let mut f = svc.call(2);
    assert!(futures::poll!(&mut f).is_pending());
    drop(f);
    assert_eq!(one(&mut svc, 3).await, Ok(10), "PROBE capacity lost after dropping a sleeping retry");
    // drop while the inner call hangs
    *sh.steps.lock().unwrap() = vec![Step::Hang].into();
    svc.ready().await.unwrap();
    let mut f = svc.call(2);
    assert!(futures::poll!(&mut f).is_pending());
    drop(f);
    assert_eq!(one(&mut svc, 3).await, Ok(10), "PROBE capacity lost after dropping a running call");
    assert_eq!(sh.contract_violations.load(Ordering::SeqCst), 0);

    let (inner, sh) = Inner::new(fails(2, Step::Ok(9)), Some(Step::Ok(10)));
    let buf = tower::buffer::Buffer::new(inner.map_err(|e| -> tower::BoxError { Box::new(e) }), 1);
    let lay = RetryLayer::<u64, Arc<str>>::builder().max_attempts(3).fixed_backoff(Duration::from_millis(1)).build();
    let mut svc = lay.layer(buf.map_err(|e: tower::BoxError| -> Arc<str> { e.to_string().into() }));
    let r = tokio::time::timeout(Duration::from_secs(60), async {
        svc.ready().await?;
        svc.call(1).await
    })
    .await;
    assert_eq!(r.expect("PROBE hang over Buffer"), Ok(9));
    assert_eq!(sh.calls.load(Ordering::SeqCst), 3);
    assert_eq!(sh.contract_violations.load(Ordering::SeqCst), 0);
}

struct CountingBudget {
    inner: Arc<dyn RetryBudget>,
    granted: AtomicUsize,
    denied: AtomicUsize,
    deposits: AtomicUsize,
}
impl RetryBudget for CountingBudget {
    fn try_withdraw(&self) -> bool {
        let g = self.inner.try_withdraw();
        if g {
            self.granted.fetch_add(1, Ordering::SeqCst);
        } else {
            self.denied.fetch_add(1, Ordering::SeqCst);
        }
        g
    }
    fn deposit(&self) {
        self.deposits.fetch_add(1, Ordering::SeqCst);
        self.inner.deposit()
    }
    fn balance(&self) -> usize {
        self.inner.balance()
    }
}

#[tokio::test(start_paused = true)]
async fn budgets_through_retry() {
    for which in 0..5 {
        let raw: Arc<dyn RetryBudget> = match which {
            0 => RetryBudgetBuilder::new().token_bucket().max_tokens(4).build(),
            1 => RetryBudgetBuilder::new().token_bucket().max_tokens(0).build(),
            2 => RetryBudgetBuilder::new().aimd().min_budget(0).max_budget(4).build(),
            3 => RetryBudgetBuilder::new().aimd().min_budget(0).max_budget(4).withdraw_amount(3).build(),
            _ => RetryBudgetBuilder::new().aimd().min_budget(0).max_budget(0).build(),
        };
        let tokens = [4usize, 0, 4, 1, 0][which];
        let cb = Arc::new(CountingBudget { inner: raw, granted: AtomicUsize::new(0), denied: AtomicUsize::new(0), deposits: AtomicUsize::new(0) });
        let (inner, sh) = Inner::new(vec![], Some(Step::Err("e")));
        let layer = b().max_attempts(4).fixed_backoff(Duration::from_millis(2)).budget(cb.clone()).budget(cb.clone()).build();
        // five requests through two services built from the same layer and a clone, concurrently
        let mut s1 = layer.layer(inner.clone());
        let mut s2 = layer.clone().layer(inner.clone());
        let mut s3 = s1.clone();
        let mut futs = Vec::new();
        for i in 0..5u64 {
            let s = match i % 3 {
                0 => &mut s1,
                1 => &mut s2,
                _ => &mut s3,
            };
            s.ready().await.unwrap();
            futs.push(s.call(i));
        }
        let rs = futures::future::join_all(futs).await;
        assert!(rs.iter().all(|r| r.is_err()));
        let calls = sh.calls.load(Ordering::SeqCst);
        let granted = cb.granted.load(Ordering::SeqCst);
        assert_eq!(calls, 5 + granted, "PROBE budget {which}: retries {} vs granted {granted}", calls - 5);
        assert_eq!(granted, tokens.min(15), "PROBE budget {which}: granted {granted} of {tokens}");
        assert_eq!(cb.deposits.load(Ordering::SeqCst), 0);
        assert_eq!(sh.contract_violations.load(Ordering::SeqCst), 0);
    }
}

#[tokio::test(start_paused = true)]
async fn user_code_panics_leave_service_usable() {
    quiet_panics();
    // predicate / interval / budget / max_attempts_fn / inner panics: the panic may propagate, but nothing may hang
    // and the service must stay usable (no readiness or capacity lost)
    struct PanicBudget;
    impl RetryBudget for PanicBudget {
        fn try_withdraw(&self) -> bool {
            panic!("budget")
        }
        fn deposit(&self) {
            panic!("budget deposit")
        }
        fn balance(&self) -> usize {
            0
        }
    }
    for which in 0..6 {
        let (inner, sh) = Inner::new(vec![], Some(Step::Err("e")));
        let bl = b().max_attempts(3).fixed_backoff(Duration::from_millis(1));
        let bl = match which {
            0 => bl.retry_on(|_| panic!("pred")),
            1 => bl.backoff(FnInterval::new(|_| panic!("interval"))),
            2 => bl.budget(Arc::new(PanicBudget)),
            3 => bl.max_attempts_fn(|r: &u64| if *r == 1 { panic!("maxfn") } else { 2 }),
            4 => bl, // inner call panics synchronously
            _ => bl, // inner future panics
        };
        if which == 4 {
            *sh.steps.lock().unwrap() = vec![Step::Err("e"), Step::PanicSync].into();
        }
        if which == 5 {
            *sh.steps.lock().unwrap() = vec![Step::Err("e"), Step::PanicFut].into();
        }
        let lim = tower::limit::ConcurrencyLimit::new(inner, 1);
        let mut svc = bl.build().layer(lim);
        let r = std::panic::AssertUnwindSafe(one(&mut svc, 1)).catch_unwind().await;
        assert!(r.is_err(), "PROBE case {which}: expected the panic to propagate, got {:?}", r);
        // afterwards: a fresh request with a healthy inner
        *sh.steps.lock().unwrap() = vec![Step::Ok(5)].into();
        let r = std::panic::AssertUnwindSafe(one(&mut svc, 2)).catch_unwind().await;
        match which {
            2 => assert!(r.is_err()), // deposit panics on success: still user code
            _ => assert_eq!(r.ok(), Some(Ok(5)), "PROBE case {which}: service unusable after a panic in user code"),
        }
        assert_eq!(sh.contract_violations.load(Ordering::SeqCst), 0);
    }
}

#[tokio::test(start_paused = true)]
async fn transparency() {
    for req in [0u64, 1, u64::MAX] {
        let (inner, sh) = Inner::new(vec![Step::Ok(req ^ 5)], None);
        *sh.start.lock().unwrap() = Some(tokio::time::Instant::now());
        let t0 = tokio::time::Instant::now();
        let mut svc = b().max_attempts(0).fixed_backoff(Duration::MAX).build().layer(inner);
        assert_eq!(one(&mut svc, req).await, Ok(req ^ 5));
        assert_eq!(tokio::time::Instant::now(), t0, "PROBE slept on the success path");
        assert_eq!(sh.log.lock().unwrap().as_slice(), &[(req, Duration::ZERO)]);
    }
}
