//! Shared helpers for the probe tests (tag c).
use std::collections::VecDeque;
use std::future::Future;
use std::pin::Pin;
use std::sync::atomic::{AtomicBool, AtomicUsize, Ordering};
use std::sync::{Arc, Mutex};
use std::task::{Context, Poll};
use tower::Service;

#[derive(Debug, Clone, PartialEq, Eq)]
pub struct PErr(pub String);
impl std::fmt::Display for PErr {
    fn fmt(&self, f: &mut std::fmt::Formatter<'_>) -> std::fmt::Result {
        write!(f, "{}", self.0)
    }
}
impl std::error::Error for PErr {}

/// What the k-th inner call does.
#[derive(Debug, Clone)]
pub enum Step {
    Ok(u64),
    /// error with this text
    Err(&'static str),
    /// call() panics synchronously
    PanicSync,
    /// the returned future panics when polled
    PanicFut,
    /// pending forever
    Hang,
}

/// What the k-th poll_ready (after a consumed readiness) does.
#[derive(Debug, Clone)]
pub enum Ready {
    Ok,
    Err(&'static str),
    /// Pending this many times (self-waking), then Ok
    PendingThenOk(usize),
}

#[derive(Default)]
pub struct Shared {
    pub steps: Mutex<VecDeque<Step>>,
    /// step used when the script is exhausted
    pub tail: Mutex<Option<Step>>,
    pub readies: Mutex<VecDeque<Ready>>,
    pub calls: AtomicUsize,
    pub polls_ready: AtomicUsize,
    /// calls made on an instance that had not observed readiness
    pub contract_violations: AtomicUsize,
    pub log: Mutex<Vec<(u64, std::time::Duration)>>, // (request, tokio elapsed since start)
    pub start: Mutex<Option<tokio::time::Instant>>,
    pub strict_panic: AtomicBool,
}

/// Strict contract-checking inner service: every instance (clone) has its own readiness flag.
pub struct Inner {
    pub sh: Arc<Shared>,
    ready: bool,
    pending_left: Option<usize>,
}

impl Inner {
    pub fn new(steps: Vec<Step>, tail: Option<Step>) -> (Self, Arc<Shared>) {
        let sh = Arc::new(Shared::default());
        *sh.steps.lock().unwrap() = steps.into();
        *sh.tail.lock().unwrap() = tail;
        (
            Inner {
                sh: sh.clone(),
                ready: false,
                pending_left: None,
            },
            sh,
        )
    }
}

impl Clone for Inner {
    fn clone(&self) -> Self {
        Inner {
            sh: self.sh.clone(),
            ready: false,
            pending_left: None,
        }
    }
}

impl Service<u64> for Inner {
    type Response = u64;
    type Error = PErr;
    type Future = Pin<Box<dyn Future<Output = Result<u64, PErr>> + Send>>;

    fn poll_ready(&mut self, cx: &mut Context<'_>) -> Poll<Result<(), PErr>> {
        self.sh.polls_ready.fetch_add(1, Ordering::SeqCst);
        if self.ready {
            return Poll::Ready(Ok(()));
        }
        if let Some(n) = self.pending_left {
            if n > 0 {
                self.pending_left = Some(n - 1);
                cx.waker().wake_by_ref();
                return Poll::Pending;
            }
            self.pending_left = None;
            self.ready = true;
            return Poll::Ready(Ok(()));
        }
        let r = self.sh.readies.lock().unwrap().pop_front().unwrap_or(Ready::Ok);
        match r {
            Ready::Ok => {
                self.ready = true;
                Poll::Ready(Ok(()))
            }
            Ready::Err(s) => Poll::Ready(Err(PErr(format!("ready:{s}")))),
            Ready::PendingThenOk(n) => {
                self.pending_left = Some(n);
                cx.waker().wake_by_ref();
                Poll::Pending
            }
        }
    }

    fn call(&mut self, req: u64) -> Self::Future {
        if !self.ready {
            self.sh.contract_violations.fetch_add(1, Ordering::SeqCst);
            if self.sh.strict_panic.load(Ordering::SeqCst) {
                panic!("inner called without readiness");
            }
        }
        self.ready = false;
        self.sh.calls.fetch_add(1, Ordering::SeqCst);
        let el = {
            let st = self.sh.start.lock().unwrap();
            st.map(|s| tokio::time::Instant::now() - s).unwrap_or_default()
        };
        self.sh.log.lock().unwrap().push((req, el));
        let step = {
            let mut q = self.sh.steps.lock().unwrap();
            q.pop_front()
                .or_else(|| self.sh.tail.lock().unwrap().clone())
                .expect("script exhausted")
        };
        match step {
            Step::Ok(v) => Box::pin(async move { Ok(v) }),
            Step::Err(s) => Box::pin(async move { Err(PErr(s.to_string())) }),
            Step::PanicSync => panic!("inner call panics synchronously"),
            Step::PanicFut => Box::pin(async move { panic!("inner future panics") }),
            Step::Hang => Box::pin(futures::future::pending()),
        }
    }
}

/// A panic payload whose Drop panics (depth levels deep: each drop panics with a payload one level shallower).
pub struct Bomb(pub u32);
impl Drop for Bomb {
    fn drop(&mut self) {
        if self.0 > 0 && !std::thread::panicking() {
            std::panic::panic_any(Bomb(self.0 - 1));
        }
    }
}

pub fn quiet_panics() {
    static ONCE: std::sync::Once = std::sync::Once::new();
    ONCE.call_once(|| {
        std::panic::set_hook(Box::new(|info| {
            // print assertion failures of the probe itself, stay quiet about injected panics
            if let Some(s) = info.payload().downcast_ref::<String>() {
                if s.contains("PROBE") || s.contains("left") {
                    eprintln!("PROBE-ASSERT: {s}");
                }
            }
        }))
    });
}
