//! Sliding log: `layer()` preallocates `limit_for_period` timestamps (16 bytes each) before any call exists.
//! Run one limit per process: PROBE_LIMIT_LOG2=k cargo test --test rl_log_prealloc -- --nocapture
use probe_a::*;
use std::time::Duration;
use tower::{Layer, Service, ServiceExt};
use tower_resilience_ratelimiter::{RateLimiterLayer, WindowType};

#[test]
fn sliding_log_prealloc() {
    let k: u32 = std::env::var("PROBE_LIMIT_LOG2").ok().and_then(|s| s.parse().ok()).unwrap_or(20);
    let limit = if k >= 64 { usize::MAX } else { 1usize << k };
    eprintln!("limit_for_period = 2^{k}: building the layer ...");
    let (inner, sh) = Inner::new();
    let layer = RateLimiterLayer::builder().window_type(WindowType::SlidingLog).limit_for_period(limit).refresh_period(Duration::from_secs(1)).timeout_duration(Duration::ZERO).build();
    eprintln!("  build() ok; calling layer() ...");
    let mut svc = layer.layer(inner);
    eprintln!("  layer() ok");
    let rt = tokio::runtime::Builder::new_current_thread().enable_all().build().unwrap();
    let r = rt.block_on(async { svc.ready().await.unwrap().call(Req::ok(1)).await });
    eprintln!("  first call: {r:?}, inner calls {}", sh.calls.load(std::sync::atomic::Ordering::SeqCst));
}
