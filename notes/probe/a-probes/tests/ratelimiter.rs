//! Probes for C02 / C15 / C20 (rate limiter part) against the real crate, real clock.
use futures::future::join_all;
use futures::FutureExt;
use probe_a::*;
use std::sync::atomic::{AtomicUsize, Ordering::SeqCst};
use std::sync::Arc;
use std::time::{Duration, Instant};
use tower::{Layer, Service, ServiceExt};
use tower_resilience_ratelimiter::{RateLimiterLayer, RateLimiterServiceError, WindowType};

type Out = Result<u64, RateLimiterServiceError<E>>;
const WINDOWS: [WindowType; 3] = [WindowType::Fixed, WindowType::SlidingLog, WindowType::SlidingCounter];

fn rt(threads: usize) -> tokio::runtime::Runtime {
    if threads == 0 {
        tokio::runtime::Builder::new_current_thread().enable_all().build().unwrap()
    } else {
        tokio::runtime::Builder::new_multi_thread().worker_threads(threads).enable_all().build().unwrap()
    }
}

/// Exact check of C02's window clause for fixed window / sliding counter: can time be cut into
/// consecutive windows, none shorter than `p`, each holding at most `limit` admissions?
fn cuttable(adm: &[u128], limit: usize, p: u128) -> bool {
    let n = adm.len();
    if n <= limit {
        return true;
    }
    // candidate boundaries
    let mut cands: Vec<u128> = vec![];
    for &a in adm {
        cands.push(a);
        cands.push(a + 1);
    }
    fn feasible(s: u128, adm: &[u128], limit: usize, p: u128, memo: &mut std::collections::HashMap<u128, bool>) -> bool {
        if let Some(&v) = memo.get(&s) {
            return v;
        }
        let k = adm.partition_point(|&a| a < s);
        let res = if adm.len() - k <= limit {
            true
        } else {
            let ub = adm[k + limit]; // the boundary must not lie beyond this admission
            let lb = s + p;
            let mut ok = false;
            if lb <= ub {
                let mut cs: Vec<u128> = vec![lb];
                for &a in &adm[k..=k + limit] {
                    for c in [a, a + 1] {
                        if c >= lb && c <= ub {
                            cs.push(c);
                        }
                    }
                }
                for c in cs {
                    if feasible(c, adm, limit, p, memo) {
                        ok = true;
                        break;
                    }
                }
            }
            ok
        };
        memo.insert(s, res);
        res
    }
    let mut memo = std::collections::HashMap::new();
    // the first window may start arbitrarily early: its end b is any instant <= adm[limit]
    let ub = adm[limit];
    cands.retain(|&c| c <= ub);
    cands.push(0);
    cands.iter().any(|&b| feasible(b, adm, limit, p, &mut memo))
}

fn log_ok(adm: &[u128], limit: usize, p: u128) -> bool {
    adm.windows(limit + 1).all(|w| w[limit] - w[0] >= p)
}

#[test]
fn r0_monitor_selftest() {
    assert!(cuttable(&[0, 0, 100, 100], 2, 100));
    assert!(cuttable(&[0, 0, 99, 99, 101, 101], 2, 100)); // (-inf,1) [1,101) [101,..): the existential reading is weak
    assert!(!cuttable(&[0, 0, 50, 50, 100, 100], 2, 100));
    assert!(!cuttable(&[0, 0, 0], 2, 100));
    assert!(!cuttable(&[0, 0, 100, 100, 199, 199, 200], 2, 100));
    assert!(cuttable(&[0, 0, 100, 100, 200, 200], 2, 100));
    assert!(cuttable(&[50, 50, 120, 120, 250], 2, 100));
}

/// R1: every window type x extreme limit / period / timeout: no panic, no hang beyond the timeout,
/// no admission beyond the limit inside one period.
#[test]
fn r1_config_extremes() {
    quiet_panics();
    let dev = Dev::new();
    let limits = [1usize, 2, 1 << 20, usize::MAX / 2, usize::MAX];
    let periods = [Duration::ZERO, Duration::from_nanos(1), Duration::from_millis(40), Duration::from_secs(u64::MAX / 4), Duration::MAX];
    let timeouts = [Duration::ZERO, Duration::from_nanos(1), Duration::from_millis(60), Duration::MAX];
    for wt in WINDOWS {
        for &limit in &limits {
            for &period in &periods {
                for &timeout in &timeouts {
                    let tag = format!("{wt:?} limit={limit:#x} period={period:?} timeout={timeout:?}");
                    let built = std::panic::catch_unwind(|| {
                        let (inner, sh) = Inner::new();
                        let svc = RateLimiterLayer::builder()
                            .window_type(wt)
                            .limit_for_period(limit)
                            .refresh_period(period)
                            .timeout_duration(timeout)
                            .build()
                            .layer(inner);
                        (svc, sh)
                    });
                    let (svc, sh) = match built {
                        Ok(x) => x,
                        Err(_) => {
                            dev.check(false, || format!("{tag}: layer() PANICS"));
                            continue;
                        }
                    };
                    let rt = rt(0);
                    let n = 4usize;
                    let outs: Vec<String> = rt.block_on(async {
                        let mut hs = vec![];
                        for i in 0..n as u64 {
                            let mut c = svc.clone();
                            hs.push(tokio::spawn(async move {
                                let t0 = Instant::now();
                                let r = tokio::time::timeout(Duration::from_millis(150), catch(c.ready().await.unwrap().call(Req::ok(i)))).await;
                                (r, t0.elapsed())
                            }));
                        }
                        let mut v = vec![];
                        for h in hs {
                            let (r, el) = h.await.unwrap();
                            v.push(match r {
                                Err(_) => "pending".to_string(),
                                Ok(Err(())) => "PANIC".to_string(),
                                Ok(Ok(Ok(_))) => format!("ok@{}ms", el.as_millis()),
                                Ok(Ok(Err(RateLimiterServiceError::RateLimited))) => format!("rej@{}ms", el.as_millis()),
                                Ok(Ok(Err(e))) => format!("other {e:?}"),
                            });
                        }
                        v
                    });
                    let oks = outs.iter().filter(|s| s.starts_with("ok")).count();
                    dev.check(!outs.iter().any(|s| s == "PANIC" || s.starts_with("other")), || format!("{tag}: {outs:?}"));
                    dev.check(sh.calls.load(SeqCst) == oks, || format!("{tag}: {} inner calls, {oks} admitted: {outs:?}", sh.calls.load(SeqCst)));
                    // bound: within 150 ms at most ceil(150/period)+1 windows
                    if period >= Duration::from_millis(40) {
                        let windows = if period > Duration::from_secs(1) { 1 } else { 5 };
                        dev.check(oks <= limit.saturating_mul(windows), || format!("{tag}: {oks} admitted: {outs:?}"));
                    }
                    // spare capacity => admitted at once
                    if limit >= n {
                        dev.check(oks == n, || format!("{tag}: spare capacity but {outs:?}"));
                    }
                    // finite timeout => decided (ms slack for the real clock)
                    if timeout < Duration::from_millis(100) {
                        dev.check(!outs.iter().any(|s| s == "pending"), || format!("{tag}: undecided after 150 ms: {outs:?}"));
                    }
                    if timeout.is_zero() && period >= Duration::from_millis(40) && limit < n {
                        dev.check(outs.iter().filter(|s| s.starts_with("rej@0") || s.starts_with("rej@1m")).count() == n - limit, || format!("{tag}: zero timeout: {outs:?}"));
                    }
                }
            }
        }
    }
    dev.finish("r1");
}

struct Run {
    adm: Vec<u128>,
    outs: Vec<(u64, bool, Duration)>,
    calls: usize,
}

/// drive `n` callers arriving `gap` apart through clones of one limiter on `threads` workers
fn drive(wt: WindowType, limit: usize, period: Duration, timeout: Duration, n: u64, gap: Duration, threads: usize, cancel_every: u64) -> Run {
    let (inner, sh) = Inner::new();
    let svc = RateLimiterLayer::builder().window_type(wt).limit_for_period(limit).refresh_period(period).timeout_duration(timeout).build().layer(inner);
    let rt = rt(threads);
    let outs = rt.block_on(async {
        let mut hs = vec![];
        for i in 0..n {
            let mut c = svc.clone();
            hs.push(tokio::spawn(async move {
                let t0 = Instant::now();
                let f = c.ready().await.unwrap().call(Req::ok(i));
                if cancel_every > 0 && i % cancel_every == 1 {
                    // cancel while waiting
                    let r = tokio::time::timeout(period / 3, f).await;
                    return (i, matches!(r, Ok(Ok(_))), t0.elapsed(), r.is_err());
                }
                let r: Out = f.await;
                (i, r.is_ok(), t0.elapsed(), false)
            }));
            if !gap.is_zero() {
                tokio::time::sleep(gap).await;
            }
        }
        join_all(hs).await.into_iter().map(|r| r.unwrap()).collect::<Vec<_>>()
    });
    let log = sh.log.lock().unwrap();
    let base = log.first().map(|x| x.1);
    let mut adm: Vec<u128> = log.iter().map(|x| (x.1 - base.unwrap()).as_nanos()).collect();
    adm.sort();
    Run { adm, outs: outs.iter().filter(|o| !o.3).map(|o| (o.0, o.1, o.2)).collect(), calls: sh.calls.load(SeqCst) }
}

/// R2/R3: crowds of waiters, timeouts from 0 to several periods, arrival gaps incl. sub-ms, one and eight
/// worker threads, cancellations while waiting: window clause (C02), decision deadline and exactly-once (C15).
#[test]
fn r2_windows_and_deadlines() {
    quiet_panics();
    let dev = Dev::new();
    let p = Duration::from_millis(50);
    // real clock: the inner call is stamped a little after the limiter's own clock reading
    let tol = Duration::from_millis(4).as_nanos();
    for wt in WINDOWS {
        for limit in [1usize, 2, 5] {
            for timeout in [Duration::ZERO, p / 2, p, p * 2 + Duration::from_millis(10), p * 4] {
                for (n, gap, threads, cancel) in [
                    (12u64, Duration::ZERO, 0usize, 0u64),
                    (12, Duration::ZERO, 8, 0),
                    (14, Duration::from_micros(700), 8, 0),
                    (12, Duration::from_millis(9), 0, 3),
                    (16, Duration::from_micros(12_500), 4, 4),
                ] {
                    let tag = format!("{wt:?} limit={limit} timeout={timeout:?} n={n} gap={gap:?} threads={threads} cancel={cancel}");
                    // the sandbox stalls whole processes for 20-130 ms now and then (measured: sleep(9 ms) returning after 143 ms):
                    // a configuration counts as deviating only if it deviates in each of 3 attempts
                    let outer = dev.clone();
                    let mut last: Vec<String> = vec![];
                    for _attempt in 0..3 {
                    let dev = Dev::new();
                    let run = drive(wt, limit, p, timeout, n, gap, threads, cancel);
                    let pn = p.as_nanos() - tol;
                    let ok = match wt {
                        WindowType::SlidingLog => log_ok(&run.adm, limit, pn),
                        _ => cuttable(&run.adm, limit, pn),
                    };
                    dev.check(ok, || format!("{tag}: C02 window clause violated, admissions (ms) {:?}", run.adm.iter().map(|a| *a as f64 / 1e6).collect::<Vec<_>>()));
                    let admitted = run.outs.iter().filter(|o| o.1).count();
                    // exactly once: inner calls == admitted callers (+ cancelled ones that may have been admitted)
                    if cancel == 0 {
                        dev.check(run.calls == admitted, || format!("{tag}: {} inner calls for {admitted} admitted callers", run.calls));
                    } else {
                        dev.check(run.calls >= admitted, || format!("{tag}: {} inner calls for {admitted} admitted callers", run.calls));
                    }
                    // decided within the timeout (+ scheduling slack)
                    for (i, okk, el) in &run.outs {
                        dev.check(*el <= timeout + Duration::from_millis(15), || format!("{tag}: caller {i} ({}) decided after {el:?}", if *okk { "admitted" } else { "rejected" }));
                    }
                    // first `limit` callers meet spare capacity: admitted at once
                    for (i, okk, el) in run.outs.iter().filter(|o| threads == 0 && (o.0 as usize) < limit) {
                        dev.check(*okk && *el < Duration::from_millis(10), || format!("{tag}: caller {i} met spare capacity but: admitted={okk} after {el:?}"));
                    }
                    last = dev.0.lock().unwrap().clone();
                    if last.is_empty() { break; }
                    }
                    for m in last { outer.check(false, || format!("(3 of 3 attempts) {m}")); }
                }
            }
        }
    }
    dev.finish("r2");
}

/// R3b: after two idle periods the next `limit` calls go through at once (all windows, after every kind of history).
#[test]
fn r3_idle_two_periods() {
    quiet_panics();
    let dev = Dev::new();
    for wt in WINDOWS {
        for (p_us, limit) in [(30_000u64, 3usize), (55_900, 2), (7_001, 1), (33_333, 4)] {
            let p = Duration::from_micros(p_us);
            let (inner, sh) = Inner::new();
            let svc = RateLimiterLayer::builder().window_type(wt).limit_for_period(limit).refresh_period(p).timeout_duration(p * 3).build().layer(inner);
            let rt = rt(0);
            rt.block_on(async {
                for round in 0..4u64 {
                    // history: a crowd, some waiting into later windows, some cancelled, some rejected
                    let mut hs = vec![];
                    for i in 0..(limit as u64 * 3 + 1) {
                        let mut c = svc.clone();
                        hs.push(tokio::spawn(async move {
                            let f = c.ready().await.unwrap().call(Req::ok(i));
                            if i % 4 == 3 { let _ = tokio::time::timeout(Duration::from_millis(2), f).await; } else { let _ = f.await; }
                        }));
                    }
                    join_all(hs).await;
                    let last = sh.log.lock().unwrap().last().unwrap().1;
                    // idle exactly two periods after the last admission (busy-wait the tail for precision)
                    let target = last + p * 2 + Duration::from_micros(round * 150);
                    let now = Instant::now();
                    if target > now + Duration::from_millis(2) { tokio::time::sleep(target - now - Duration::from_millis(1)).await; }
                    while Instant::now() < target { std::hint::spin_loop(); }
                    let c0 = sh.calls.load(SeqCst);
                    for i in 0..limit as u64 {
                        let mut c = svc.clone();
                        let mut f = c.ready().await.unwrap().call(Req::ok(1000 + i));
                        let r = (&mut f).now_or_never();
                        dev.check(matches!(r, Some(Ok(_))), || format!("{wt:?} p={p:?} limit={limit} round {round}: call {i} after two idle periods -> {r:?}"));
                    }
                    dev.check(sh.calls.load(SeqCst) == c0 + limit, || format!("{wt:?} p={p:?}: {} of {limit} reached inner", sh.calls.load(SeqCst) - c0));
                    tokio::time::sleep(p * 2).await;
                }
            });
        }
    }
    dev.finish("r3");
}

/// R4: listeners that panic; R5: inner panics, readiness pending / failing, strict contract, reuse of one service value.
#[test]
fn r4_listeners_and_inner_faults() {
    quiet_panics();
    let dev = Dev::new();
    for wt in WINDOWS {
        for nasty in [Nasty::No, Nasty::PanicStr, Nasty::PanicAnyDropPanics] {
            let tag = format!("{wt:?} {nasty:?}");
            let head = Arc::new([AtomicUsize::new(0), AtomicUsize::new(0), AtomicUsize::new(0)]);
            let tail = Arc::new([AtomicUsize::new(0), AtomicUsize::new(0), AtomicUsize::new(0)]);
            let (h1, h2, h3) = (head.clone(), head.clone(), head.clone());
            let (t1, t2, t3) = (tail.clone(), tail.clone(), tail.clone());
            let p = Duration::from_millis(150); // long enough to ride out the sandbox's 20-130 ms stalls
            let layer = RateLimiterLayer::builder()
                .window_type(wt).limit_for_period(2).refresh_period(p).timeout_duration(Duration::from_millis(5))
                .on_permit_acquired(move |_| { h1[0].fetch_add(1, SeqCst); misbehave(nasty) })
                .on_permit_rejected(move |_| { h2[1].fetch_add(1, SeqCst); misbehave(nasty) })
                .on_permits_refreshed(move |_| { h3[2].fetch_add(1, SeqCst); misbehave(nasty) })
                .on_permit_acquired(move |_| { t1[0].fetch_add(1, SeqCst); })
                .on_permit_rejected(move |_| { t2[1].fetch_add(1, SeqCst); })
                .on_permits_refreshed(move |_| { t3[2].fetch_add(1, SeqCst); })
                .name("a").name("b")
                .build();
            let (inner, sh) = Inner::new();
            let mut svc = layer.layer(inner);
            let rt = rt(0);
            rt.block_on(async {
                let r = catch(svc.ready().await.unwrap().call(Req::ok(1))).await;
                dev.check(matches!(r, Ok(Ok(1))), || format!("{tag}: ok call -> {r:?}"));
                let r = catch(svc.ready().await.unwrap().call(Req::new(2, Mode::Err(Duration::from_millis(1))))).await;
                dev.check(matches!(&r, Ok(Err(RateLimiterServiceError::Inner(E(2))))), || format!("{tag}: err call -> {r:?}"));
                let r = catch(svc.ready().await.unwrap().call(Req::ok(3))).await;
                dev.check(matches!(&r, Ok(Err(RateLimiterServiceError::RateLimited))), || format!("{tag}: third call -> {r:?}"));
                dev.check(sh.calls.load(SeqCst) == 2, || format!("{tag}: inner calls {}", sh.calls.load(SeqCst)));
                tokio::time::sleep(p * 2 + Duration::from_millis(2)).await;
                // inner faults: panics propagate, and consume exactly one permit each
                for (i, m) in [Mode::PanicSync, Mode::PanicFut].into_iter().enumerate() {
                    let r = catch(svc.ready().await.unwrap().call(Req::new(10 + i as u64, m.clone()))).await;
                    dev.check(r.is_err(), || format!("{tag}: {m:?} -> {r:?}"));
                }
                let r = catch(svc.ready().await.unwrap().call(Req::ok(13))).await;
                dev.check(matches!(&r, Ok(Err(RateLimiterServiceError::RateLimited))), || format!("{tag}: after two panicking admissions -> {r:?}"));
                tokio::time::sleep(p * 2 + Duration::from_millis(2)).await;
                let r = catch(svc.ready().await.unwrap().call(Req::new(14, Mode::PanicFutNasty))).await;
                dev.check(r.is_err(), || format!("{tag}: nasty inner panic -> {r:?}"));
                // readiness: pending, then failing
                sh.pending_left.store(3, SeqCst);
                let r = catch(svc.ready().await.unwrap().call(Req::ok(15))).await;
                dev.check(matches!(r, Ok(Ok(15))), || format!("{tag}: after pending readiness -> {r:?}"));
                sh.fail_ready.store(true, SeqCst);
                let c0 = sh.calls.load(SeqCst);
                match svc.ready().await {
                    Err(RateLimiterServiceError::Inner(E(u64::MAX))) => {}
                    Err(e) => dev.check(false, || format!("{tag}: readiness error surfaced as {e:?}")),
                    Ok(_) => dev.check(false, || format!("{tag}: readiness error swallowed")),
                }
                dev.check(sh.calls.load(SeqCst) == c0, || "failed readiness reached inner".into());
                // the limiter still works (no poisoned lock) from a clone taken now
                tokio::time::sleep(p * 2 + Duration::from_millis(2)).await;
                let mut c = svc.clone();
                let r = catch(c.ready().await.unwrap().call(Req::ok(16))).await;
                dev.check(matches!(r, Ok(Ok(16))), || format!("{tag}: clone after faults -> {r:?}"));
            });
            let h: Vec<usize> = head.iter().map(|a| a.load(SeqCst)).collect();
            let t: Vec<usize> = tail.iter().map(|a| a.load(SeqCst)).collect();
            dev.check(h == t, || format!("{tag}: listeners after a panicking one saw {t:?}, the first saw {h:?}"));
            dev.check(h[0] == 7 && h[1] == 2, || format!("{tag}: events seen {h:?} (expected 7 acquired, 2 rejected)"));
            dev.check(sh.contract_violations.load(SeqCst) == 0, || format!("{tag}: readiness contract violated"));
        }
    }
    dev.finish("r4");
}

/// R6: a waiter cancelled while sleeping holds nothing; two services from one layer are two limiters;
/// clones share; presets; over ConcurrencyLimit / Buffer.
#[test]
fn r6_cancel_clone_presets() {
    quiet_panics();
    let dev = Dev::new();
    let rt = rt(0);
    rt.block_on(async {
        for wt in WINDOWS {
            let p = Duration::from_millis(40);
            let (inner, sh) = Inner::new();
            let layer = RateLimiterLayer::builder().window_type(wt).limit_for_period(2).refresh_period(p).timeout_duration(p * 3).build();
            let mut svc = layer.layer(inner.clone());
            let mut other = layer.clone().layer(inner.clone());
            for i in 0..2 { let r = svc.ready().await.unwrap().call(Req::ok(i)).await; dev.check(r.is_ok(), || format!("{wt:?}: {r:?}")); }
            // clone shares: third through a clone must wait
            let mut cl = svc.clone();
            let mut w1 = cl.ready().await.unwrap().call(Req::ok(2));
            dev.check((&mut w1).now_or_never().is_none(), || format!("{wt:?}: clone does not share the limiter"));
            let mut w2 = svc.ready().await.unwrap().call(Req::ok(3));
            dev.check((&mut w2).now_or_never().is_none(), || format!("{wt:?}: fourth admitted at once"));
            // a second service of the same layer is a separate limiter (documented by the property's 'one rate limiter (all clones)')
            let r = other.ready().await.unwrap().call(Req::ok(50)).now_or_never();
            dev.check(matches!(r, Some(Ok(50))), || format!("{wt:?}: second layer() service -> {r:?}"));
            let c0 = sh.calls.load(SeqCst);
            drop(w1); // cancelled while waiting
            let r = w2.await;
            dev.check(matches!(r, Ok(3)), || format!("{wt:?}: remaining waiter -> {r:?}"));
            dev.check(sh.calls.load(SeqCst) == c0 + 1, || format!("{wt:?}: cancelled waiter reached inner"));
            tokio::time::sleep(p * 2 + Duration::from_millis(1)).await;
            for i in 0..2 { let r = svc.ready().await.unwrap().call(Req::ok(60 + i)).now_or_never(); dev.check(matches!(r, Some(Ok(_))), || format!("{wt:?}: capacity after cancel: {r:?}")); }
            dev.check(sh.contract_violations.load(SeqCst) == 0, || format!("{wt:?}: contract"));
        }
        // presets
        for (name, b, limit) in [
            ("per_second(3)", RateLimiterLayer::per_second(3), 3usize),
            ("per_minute(2)", RateLimiterLayer::per_minute(2), 2),
            ("burst(2,1)", RateLimiterLayer::burst(2, 1), 3),
            ("default", RateLimiterLayer::builder(), 50),
            ("Default", Default::default(), 50),
            ("per_second twice", RateLimiterLayer::per_second(9).limit_for_period(4).limit_for_period(2), 2),
        ] {
            let (inner, sh) = Inner::new();
            let mut svc = b.timeout_duration(Duration::ZERO).build().layer(inner);
            let mut oks = 0;
            for i in 0..(limit as u64 + 3) { if svc.ready().await.unwrap().call(Req::ok(i)).await.is_ok() { oks += 1; } }
            dev.check(oks == limit && sh.calls.load(SeqCst) == limit, || format!("preset {name}: {oks} admitted, limit {limit}"));
        }
        let r = std::panic::catch_unwind(|| RateLimiterLayer::burst(usize::MAX, 1).build());
        eprintln!("NOTE burst(usize::MAX, 1): {}", if r.is_ok() { "builds (sum wrapped)" } else { "panics (overflow)" });
        // over reserving services
        let (inner, sh) = Inner::new();
        let mut svc = RateLimiterLayer::per_second(100).build().layer(tower::limit::ConcurrencyLimit::new(inner, 1));
        for i in 0..10u64 { let r = catch(svc.ready().await.unwrap().call(Req::ok(i))).await; dev.check(matches!(r, Ok(Ok(v)) if v == i), || format!("over ConcurrencyLimit {i}: {r:?}")); }
        dev.check(sh.contract_violations.load(SeqCst) == 0, || "contract over CL".into());
        let (inner, sh) = Inner::new();
        let mut svc = RateLimiterLayer::per_second(100).build().layer(tower::buffer::Buffer::new(inner, 1));
        for i in 0..10u64 { let r = catch(svc.ready().await.unwrap().call(Req::ok(i))).await; dev.check(matches!(r, Ok(Ok(v)) if v == i), || format!("over Buffer {i}: {r:?}")); }
        dev.check(sh.contract_violations.load(SeqCst) == 0, || "contract over Buffer".into());
    });
    dev.finish("r6");
}

/// R7: limits above anything the harness drives, crowds of thousands, sub-millisecond periods, handles dropped under waiters.
#[test]
fn r7_crowds_submilli_handles() {
    quiet_panics();
    let dev = Dev::new();
    let p = Duration::from_millis(50);
    let tol = Duration::from_millis(4).as_nanos();
    for wt in WINDOWS {
        // limit 500, 2000 callers at one instant, eight workers
        for (limit, n, threads) in [(500usize, 2000u64, 8usize), (131, 700, 0)] {
            let mut last = vec![];
            for _attempt in 0..3 {
                let d = Dev::new();
                let run = drive(wt, limit, p, p * 3, n, Duration::ZERO, threads, 0);
                let pn = p.as_nanos() - tol;
                let ok = match wt { WindowType::SlidingLog => log_ok(&run.adm, limit, pn), _ => cuttable(&run.adm, limit, pn) };
                d.check(ok, || format!("{wt:?} limit={limit} n={n} threads={threads}: C02 window clause violated ({} admissions)", run.adm.len()));
                let admitted = run.outs.iter().filter(|o| o.1).count();
                d.check(run.calls == admitted, || format!("{wt:?} limit={limit}: {} inner calls, {admitted} admitted", run.calls));
                d.check(admitted >= limit && admitted <= limit * 5, || format!("{wt:?} limit={limit}: admitted {admitted} in 3 periods"));
                last = d.0.lock().unwrap().clone();
                if last.is_empty() { break; }
            }
            for m in last { dev.check(false, || format!("(3 of 3 attempts) {m}")); }
        }
        // sub-millisecond period: the rate must still be bounded (a period truncated to whole ms would be 0 = unlimited)
        let sp = Duration::from_micros(700);
        let t0 = Instant::now();
        let run = drive(wt, 3, sp, Duration::ZERO, 400, Duration::from_micros(50), 0, 0);
        let span = t0.elapsed();
        let bound = 3 * (span.as_micros() as usize / 700 + 2);
        dev.check(run.calls <= bound, || format!("{wt:?} period 700µs limit 3: {} admitted in {span:?} (bound {bound})", run.calls));
        dev.check(run.calls >= 3, || format!("{wt:?} period 700µs: only {} admitted", run.calls));
        // ... and with waiting callers
        let run = drive(wt, 2, sp, Duration::from_millis(3), 60, Duration::from_micros(100), 4, 0);
        dev.check(run.calls == run.outs.iter().filter(|o| o.1).count(), || format!("{wt:?} sub-ms waiters: calls {} vs admitted", run.calls));
        for (i, _ok, el) in &run.outs { dev.check(*el <= Duration::from_millis(150), || format!("{wt:?} sub-ms waiters: caller {i} decided after {el:?}")); }

        // every handle dropped while a waiter sleeps: it is still admitted by the next window
        let rt = rt(0);
        rt.block_on(async {
            let (inner, sh) = Inner::new();
            let layer = RateLimiterLayer::builder().window_type(wt).limit_for_period(1).refresh_period(p).timeout_duration(p * 3).build();
            let mut svc = layer.layer(inner);
            let r = svc.ready().await.unwrap().call(Req::ok(1)).await;
            dev.check(r.is_ok(), || format!("{wt:?}: {r:?}"));
            let mut w = svc.ready().await.unwrap().call(Req::ok(2));
            dev.check((&mut w).now_or_never().is_none(), || format!("{wt:?}: second call admitted at once"));
            let unpolled = svc.ready().await.unwrap().call(Req::ok(3));
            drop(svc);
            drop(layer);
            let r = tokio::time::timeout(p * 4, w).await;
            dev.check(matches!(r, Ok(Ok(2))), || format!("{wt:?}: waiter after all handles were dropped: {r:?}"));
            let r = tokio::time::timeout(p * 4, unpolled).await;
            dev.check(matches!(r, Ok(Ok(3))), || format!("{wt:?}: never-polled call after all handles were dropped: {r:?}"));
            dev.check(sh.calls.load(SeqCst) == 3, || format!("{wt:?}: inner calls {}", sh.calls.load(SeqCst)));
        });
    }
    dev.finish("r7");
}
