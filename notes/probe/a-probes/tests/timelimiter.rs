//! Probes for C06 / C20 (time limiter part) against the real crate; paused clock and real clock.
use futures::future::join_all;
use futures::FutureExt;
use probe_a::*;
use std::sync::atomic::{AtomicUsize, Ordering::SeqCst};
use std::sync::Arc;
use std::time::Duration;
use tower::{Layer, Service, ServiceExt};
use tower_resilience_timelimiter::{TimeLimiterError, TimeLimiterLayer};

type Out = Result<u64, TimeLimiterError<E>>;

fn ms(n: u64) -> Duration {
    Duration::from_millis(n)
}

/// T1/T2/T3: fixed timeouts from 0 to MAX x inner latency below / at / above / never x ok / err x both modes:
/// outcome, resolution instant, instant of the inner drop (cancel) or of the inner completion (non-cancel).
#[tokio::test(start_paused = true)]
async fn t1_outcome_and_instants() {
    quiet_panics();
    let dev = Dev::new();
    let timeouts = [Duration::ZERO, Duration::from_nanos(1), Duration::from_micros(1500), ms(1), ms(20), Duration::from_secs(3 * 365 * 86_400), Duration::MAX];
    for cancel in [true, false] {
        for &to in &timeouts {
            // latencies relative to the timeout
            let mut lats: Vec<Option<Duration>> = vec![Some(Duration::ZERO), None];
            if to > Duration::ZERO && to < Duration::from_secs(1) {
                if to > ms(2) { lats.push(Some(to - ms(1))); lats.push(Some(to / 2)); }
                lats.push(Some(to));
                lats.push(Some(to + ms(1)));
                lats.push(Some(to + ms(3)));
                lats.push(Some(to * 3 + ms(5)));
            } else if to >= Duration::from_secs(1) {
                lats.push(Some(ms(5)));
                lats.push(Some(Duration::from_secs(86_400 * 30)));
            } else {
                lats.push(Some(ms(1)));
            }
            for lat in lats {
                for is_ok in [true, false] {
                    let tag = format!("cancel={cancel} timeout={to:?} latency={lat:?} ok={is_ok}");
                    let (inner, sh) = Inner::new();
                    let mut svc = TimeLimiterLayer::builder().timeout_duration(to).cancel_running_future(cancel).build().layer(inner);
                    let mode = match (lat, is_ok) { (None, _) => Mode::Never, (Some(d), true) => Mode::Ok(d), (Some(d), false) => Mode::Err(d) };
                    let fut = svc.ready().await.unwrap().call(Req::new(7, mode));
                    let t0 = tokio::time::Instant::now();
                    let watchdog = if to > Duration::from_secs(10) { Duration::from_secs(86_400 * 60) } else { Duration::from_secs(5) };
                    let r = tokio::time::timeout(watchdog, catch(fut)).await;
                    let el = tokio::time::Instant::now() - t0;
                    let tick = ms(1); // tokio's timer granularity: never early, at most one tick late
                    // decide the expectation from the property text
                    let finishes_before = matches!(lat, Some(d) if d < to);
                    let finishes_after = match lat { None => true, Some(d) => d > to.saturating_add(tick) };
                    match r {
                        Err(_) => {
                            // undecided: only legitimate when both the deadline and the inner completion lie beyond the watchdog
                            let inner_beyond = match lat { None => true, Some(d) => d >= watchdog };
                            dev.check(to >= watchdog && inner_beyond, || format!("{tag}: UNDECIDED after {watchdog:?}"));
                        }
                        Ok(Err(())) => dev.check(false, || format!("{tag}: PANIC")),
                        Ok(Ok(out)) => {
                            let out: Out = out;
                            if finishes_before {
                                let d = lat.unwrap();
                                let want_ok = is_ok;
                                let good = match &out { Ok(7) => want_ok, Err(TimeLimiterError::Inner(E(7))) => !want_ok, _ => false };
                                dev.check(good, || format!("{tag}: inner finished before the deadline but outcome {out:?}"));
                                dev.check(el >= d && el <= d + tick, || format!("{tag}: inner result available at {d:?}, resolved at {el:?}"));
                            } else if finishes_after {
                                dev.check(matches!(out, Err(TimeLimiterError::Timeout)), || format!("{tag}: inner not finished by the deadline but outcome {out:?}"));
                                dev.check(el >= to && el <= to.saturating_add(tick), || format!("{tag}: timeout reported at {el:?}"));
                            } else {
                                // tie (latency within one tick of the timeout): either answer, but by deadline + tick
                                dev.check(el <= to.saturating_add(tick * 2), || format!("{tag}: tie resolved at {el:?}"));
                            }
                            // what happened to the inner call
                            if matches!(out, Err(TimeLimiterError::Timeout)) {
                                if cancel {
                                    let drops = sh.drops.lock().unwrap().clone();
                                    dev.check(drops.len() == 1 && drops[0].0 - t0 == el, || format!("{tag}: cancel mode: inner drops {:?} (resolved at {el:?})", drops.iter().map(|d| d.0 - t0).collect::<Vec<_>>()));
                                } else if let Some(d) = lat {
                                    // keeps running to completion in the background
                                    if d < Duration::from_secs(1000) {
                                        tokio::time::sleep(d + ms(5)).await;
                                        let comp = sh.completions.lock().unwrap().clone();
                                        dev.check(comp.len() == 1 && sh.dropped_unfinished.load(SeqCst) == 0, || format!("{tag}: non-cancel mode: inner completions {} drops {}", comp.len(), sh.dropped_unfinished.load(SeqCst)));
                                        if comp.len() == 1 {
                                            let at = comp[0].0 - t0;
                                            dev.check(at >= d && at <= d + tick, || format!("{tag}: background completion at {at:?}"));
                                        }
                                    }
                                } else {
                                    tokio::time::sleep(Duration::from_secs(100)).await;
                                    dev.check(sh.dropped_unfinished.load(SeqCst) == 0 && sh.in_flight.load(SeqCst) == 1, || format!("{tag}: non-cancel mode: never-completing inner was dropped"));
                                }
                            }
                            dev.check(sh.calls.load(SeqCst) == 1, || format!("{tag}: inner calls {}", sh.calls.load(SeqCst)));
                        }
                    }
                    dev.check(sh.contract_violations.load(SeqCst) == 0, || format!("{tag}: readiness contract violated"));
                }
            }
        }
    }
    dev.finish("t1");
}

/// T6: per-request timeouts, several concurrent calls with different deadlines on clones and on one value.
#[tokio::test(start_paused = true)]
async fn t6_per_request_concurrent() {
    quiet_panics();
    let dev = Dev::new();
    for cancel in [true, false] {
        let (inner, sh) = Inner::new();
        // request id encodes its timeout in ms (id % 1000), 999 = Duration::MAX, 0 = zero
        let mut svc = TimeLimiterLayer::builder()
            .cancel_running_future(cancel)
            .timeout_fn(|r: &Req| match r.id % 1000 { 999 => Duration::MAX, n => Duration::from_millis(n) })
            .build()
            .layer(inner);
        let t0 = tokio::time::Instant::now();
        let plan: Vec<(u64, Mode, &str)> = vec![
            (1010, Mode::Ok(ms(5)), "ok@5"),
            (2010, Mode::Ok(ms(15)), "to@10"),
            (3030, Mode::Err(ms(29)), "err@29"),
            (4030, Mode::Never, "to@30"),
            (5999, Mode::Ok(ms(500)), "ok@500"),
            (6000, Mode::Never, "to@0"),
            (7001, Mode::Err(ms(3)), "to@1"),
            (8050, Mode::Ok(ms(49)), "ok@49"),
        ];
        let mut hs = vec![];
        for (k, (id, mode, want)) in plan.into_iter().enumerate() {
            // alternate: the long-lived service value itself, or a clone of it
            let fut = if k % 2 == 0 { svc.ready().await.unwrap().call(Req::new(id, mode)) } else { let mut c = svc.clone(); c.ready().await.unwrap().call(Req::new(id, mode)) };
            hs.push(tokio::spawn(async move {
                let r = catch(fut).await;
                (id, want, r, tokio::time::Instant::now())
            }));
        }
        for h in join_all(hs).await {
            let (id, want, r, at) = h.unwrap();
            let el = (at - t0).as_millis();
            let got = match &r { Ok(Ok(_)) => format!("ok@{el}"), Ok(Err(TimeLimiterError::Inner(_))) => format!("err@{el}"), Ok(Err(TimeLimiterError::Timeout)) => format!("to@{el}"), Err(()) => "PANIC".into() };
            dev.check(got == want, || format!("cancel={cancel} request {id}: expected {want}, got {got}"));
        }
        dev.check(sh.calls.load(SeqCst) == 8, || format!("inner calls {}", sh.calls.load(SeqCst)));
        dev.check(sh.contract_violations.load(SeqCst) == 0, || "contract".into());
    }
    dev.finish("t6");
}

/// T4/T5/T7/T8: listeners that panic, builder orders, inner panics, readiness pending / failing, over reserving services.
#[tokio::test(start_paused = true)]
async fn t4_listeners_builder_faults() {
    quiet_panics();
    let dev = Dev::new();
    for cancel in [true, false] {
        for nasty in [Nasty::No, Nasty::PanicStr, Nasty::PanicAnyDropPanics] {
            for route in 0..4 {
                let tag = format!("cancel={cancel} {nasty:?} route={route}");
                let head = Arc::new([AtomicUsize::new(0), AtomicUsize::new(0), AtomicUsize::new(0)]);
                let tail = Arc::new([AtomicUsize::new(0), AtomicUsize::new(0), AtomicUsize::new(0)]);
                let (h1, h2, h3) = (head.clone(), head.clone(), head.clone());
                let (t1, t2, t3) = (tail.clone(), tail.clone(), tail.clone());
                let b = TimeLimiterLayer::builder();
                // listeners registered BEFORE the timeout source is switched must survive the switch
                let b = b
                    .on_success(move |_| { h1[0].fetch_add(1, SeqCst); misbehave(nasty) })
                    .on_error(move |_| { h2[1].fetch_add(1, SeqCst); misbehave(nasty) })
                    .on_timeout(move || { h3[2].fetch_add(1, SeqCst); misbehave(nasty) });
                let (inner, sh) = Inner::new();
                // four builder routes to "10 ms, given cancel mode"
                let mut svc: tower::util::BoxService<Req, u64, TimeLimiterError<E>> = match route {
                    0 => tower::util::BoxService::new(b.cancel_running_future(cancel).timeout_duration(ms(99)).timeout_duration(ms(10))
                        .on_success(move |_| { t1[0].fetch_add(1, SeqCst); }).on_error(move |_| { t2[1].fetch_add(1, SeqCst); }).on_timeout(move || { t3[2].fetch_add(1, SeqCst); })
                        .build().layer(inner)),
                    1 => tower::util::BoxService::new(b.timeout_duration(ms(10)).cancel_running_future(!cancel).cancel_running_future(cancel).name("n")
                        .on_success(move |_| { t1[0].fetch_add(1, SeqCst); }).on_error(move |_| { t2[1].fetch_add(1, SeqCst); }).on_timeout(move || { t3[2].fetch_add(1, SeqCst); })
                        .build().layer(inner)),
                    2 => tower::util::BoxService::new(b.cancel_running_future(cancel).timeout_fn(|_: &Req| ms(77)).timeout_duration(ms(10))
                        .on_success(move |_| { t1[0].fetch_add(1, SeqCst); }).on_error(move |_| { t2[1].fetch_add(1, SeqCst); }).on_timeout(move || { t3[2].fetch_add(1, SeqCst); })
                        .build().layer(inner)),
                    _ => tower::util::BoxService::new(b.timeout_duration(ms(77)).cancel_running_future(cancel).timeout_fn(|_: &Req| ms(10))
                        .on_success(move |_| { t1[0].fetch_add(1, SeqCst); }).on_error(move |_| { t2[1].fetch_add(1, SeqCst); }).on_timeout(move || { t3[2].fetch_add(1, SeqCst); })
                        .build().layer(inner)),
                };
                let t0 = tokio::time::Instant::now();
                let r = catch(svc.ready().await.unwrap().call(Req::new(1, Mode::Ok(ms(4))))).await;
                dev.check(matches!(r, Ok(Ok(1))), || format!("{tag}: ok call -> {r:?}"));
                let r = catch(svc.ready().await.unwrap().call(Req::new(2, Mode::Err(ms(4))))).await;
                dev.check(matches!(&r, Ok(Err(TimeLimiterError::Inner(E(2))))), || format!("{tag}: err call -> {r:?}"));
                let r = catch(svc.ready().await.unwrap().call(Req::new(3, Mode::Never))).await;
                dev.check(matches!(&r, Ok(Err(TimeLimiterError::Timeout))), || format!("{tag}: never call -> {r:?}"));
                let el = tokio::time::Instant::now() - t0;
                dev.check(el == ms(18), || format!("{tag}: three calls took {el:?}, expected 18 ms (4 + 4 + 10)"));
                let h: Vec<usize> = head.iter().map(|a| a.load(SeqCst)).collect();
                let t: Vec<usize> = tail.iter().map(|a| a.load(SeqCst)).collect();
                dev.check(h == vec![1, 1, 1] && t == vec![1, 1, 1], || format!("{tag}: listeners saw {h:?} / {t:?}"));
                // inner panics
                let r = catch(svc.ready().await.unwrap().call(Req::new(4, Mode::PanicSync))).await;
                if cancel { dev.check(r.is_err(), || format!("{tag}: sync panic -> {r:?}")); }
                else { eprintln!("NOTE {tag}: inner call() panic in non-cancel mode -> {r:?} (inner panics are outside C06's outcomes)"); }
                let r = catch(svc.ready().await.unwrap().call(Req::new(5, Mode::PanicFutNasty))).await;
                if cancel { dev.check(r.is_err(), || format!("{tag}: future panic -> {r:?}")); }
                // readiness
                sh.pending_left.store(2, SeqCst);
                let r = catch(svc.ready().await.unwrap().call(Req::ok(6))).await;
                dev.check(matches!(r, Ok(Ok(6))), || format!("{tag}: after pending readiness -> {r:?}"));
                sh.fail_ready.store(true, SeqCst);
                let c0 = sh.calls.load(SeqCst);
                match svc.ready().await {
                    Err(TimeLimiterError::Inner(E(u64::MAX))) => {}
                    Err(e) => dev.check(false, || format!("{tag}: readiness error surfaced as {e:?}")),
                    Ok(_) => dev.check(false, || format!("{tag}: readiness error swallowed")),
                }
                dev.check(sh.calls.load(SeqCst) == c0, || "failed readiness reached inner".into());
                dev.check(sh.contract_violations.load(SeqCst) == 0, || format!("{tag}: readiness contract violated {}x", sh.contract_violations.load(SeqCst)));
            }
        }
        // over reserving services, service value reused
        let (inner, sh) = Inner::new();
        let mut svc = TimeLimiterLayer::builder().timeout_duration(ms(10)).cancel_running_future(cancel).build().layer(tower::limit::ConcurrencyLimit::new(inner, 1));
        for i in 0..6u64 {
            let r = catch(svc.ready().await.unwrap().call(Req::new(i, Mode::Ok(ms(2))))).await;
            dev.check(matches!(r, Ok(Ok(v)) if v == i), || format!("cancel={cancel} over ConcurrencyLimit {i}: {r:?}"));
        }
        dev.check(sh.contract_violations.load(SeqCst) == 0, || "contract over CL".into());
        let (inner, sh) = Inner::new();
        let mut svc = TimeLimiterLayer::builder().cancel_running_future(cancel).build().layer(tower::buffer::Buffer::new(inner, 1));
        for i in 0..6u64 {
            let r = catch(svc.ready().await.unwrap().call(Req::new(i, Mode::Ok(ms(2))))).await;
            dev.check(matches!(r, Ok(Ok(v)) if v == i), || format!("cancel={cancel} over Buffer {i}: {r:?}"));
        }
        dev.check(sh.contract_violations.load(SeqCst) == 0, || "contract over Buffer".into());
    }
    dev.finish("t4");
}

/// T5b: drops at odd moments: before the first poll, while running (both modes), after the deadline.
#[tokio::test(start_paused = true)]
async fn t5_drops() {
    quiet_panics();
    let dev = Dev::new();
    for cancel in [true, false] {
        let (inner, sh) = Inner::new();
        let mut svc = TimeLimiterLayer::builder().timeout_duration(ms(10)).cancel_running_future(cancel).build().layer(inner);
        let f = svc.ready().await.unwrap().call(Req::new(1, Mode::Ok(ms(5))));
        drop(f);
        tokio::time::sleep(ms(20)).await;
        dev.check(sh.calls.load(SeqCst) == 0, || format!("cancel={cancel}: unpolled dropped call reached inner"));
        let mut f = svc.ready().await.unwrap().call(Req::new(2, Mode::Ok(ms(5))));
        assert!((&mut f).now_or_never().is_none());
        tokio::task::yield_now().await;
        drop(f);
        tokio::time::sleep(ms(20)).await;
        if cancel {
            dev.check(sh.dropped_unfinished.load(SeqCst) == 1 && sh.completed.load(SeqCst) == 0, || format!("cancel mode: dropped caller's inner: drops {} completed {}", sh.dropped_unfinished.load(SeqCst), sh.completed.load(SeqCst)));
        } else {
            dev.check(sh.completed.load(SeqCst) == 1, || format!("non-cancel mode: caller dropped, inner completed {}", sh.completed.load(SeqCst)));
        }
        // the service value is still usable
        let r = svc.ready().await.unwrap().call(Req::ok(3)).await;
        dev.check(matches!(r, Ok(3)), || format!("cancel={cancel}: after drops {r:?}"));
        dev.check(sh.contract_violations.load(SeqCst) == 0, || "contract".into());
    }
    dev.finish("t5");
}

/// T9: real clock, multi-thread runtime: never early, never a Timeout for a result that was there well before.
#[test]
fn t9_real_clock_multithread() {
    quiet_panics();
    let dev = Dev::new();
    let rt = tokio::runtime::Builder::new_multi_thread().worker_threads(4).enable_all().build().unwrap();
    rt.block_on(async {
        for cancel in [true, false] {
            let (inner, sh) = Inner::new();
            let svc = TimeLimiterLayer::builder().cancel_running_future(cancel).timeout_fn(|r: &Req| Duration::from_micros(r.id % 100_000)).build().layer(inner);
            let mut hs = vec![];
            for k in 0..300u64 {
                let mut c = svc.clone();
                // timeout in µs = id % 100000: 500 µs .. 30 ms; latency 0 .. 2x timeout
                let to_us = 500 + (k * 977) % 30_000;
                let lat_us = (k * 7919) % (2 * to_us);
                hs.push(tokio::spawn(async move {
                    let id = k * 100_000 + to_us;
                    let f = c.ready().await.unwrap().call(Req::new(id, if k % 3 == 0 { Mode::Err(Duration::from_micros(lat_us)) } else { Mode::Ok(Duration::from_micros(lat_us)) }));
                    let t0 = std::time::Instant::now();
                    let r: Out = f.await;
                    (to_us, lat_us, r, t0.elapsed())
                }));
            }
            for h in hs {
                let (to_us, lat_us, r, el) = h.await.unwrap();
                let to = Duration::from_micros(to_us);
                match &r {
                    Err(TimeLimiterError::Timeout) => {
                        dev.check(el >= to, || format!("cancel={cancel}: Timeout EARLY: {el:?} < {to:?}"));
                        // a result available more than 8 ms before the deadline must not be reported as a timeout
                        dev.check(lat_us + 8_000 > to_us, || format!("cancel={cancel}: Timeout although latency {lat_us}µs << timeout {to_us}µs (resolved {el:?})"));
                    }
                    _ => dev.check(el >= Duration::from_micros(lat_us), || format!("cancel={cancel}: result before latency?")),
                }
            }
            tokio::time::sleep(Duration::from_millis(80)).await;
            if !cancel { dev.check(sh.completed.load(SeqCst) == 300 && sh.dropped_unfinished.load(SeqCst) == 0, || format!("non-cancel: completed {} dropped {}", sh.completed.load(SeqCst), sh.dropped_unfinished.load(SeqCst))); }
            dev.check(sh.calls.load(SeqCst) == 300 && sh.contract_violations.load(SeqCst) == 0, || "calls/contract".into());
        }
    });
    dev.finish("t9");
}

/// T10: a timeout_fn that panics: the panic surfaces in call(); the service stays usable.
#[tokio::test(start_paused = true)]
async fn t10_panicking_timeout_fn() {
    quiet_panics();
    let dev = Dev::new();
    let (inner, sh) = Inner::new();
    let mut svc = TimeLimiterLayer::builder().timeout_fn(|r: &Req| if r.id == 13 { panic!("timeout_fn panics") } else { ms(10) }).build().layer(inner);
    svc.ready().await.unwrap();
    let r = std::panic::catch_unwind(std::panic::AssertUnwindSafe(|| { let _f = svc.call(Req::ok(13)); }));
    eprintln!("NOTE panicking timeout_fn: call() {}", if r.is_err() { "panics (user closure; not a listener)" } else { "returns" });
    let r = svc.ready().await.unwrap().call(Req::ok(14)).await;
    dev.check(matches!(r, Ok(14)), || format!("after a panicking timeout_fn: {r:?}"));
    dev.check(sh.contract_violations.load(SeqCst) == 0, || "contract".into());
    dev.finish("t10");
}

/// T9b: real clock: timeout zero / 1 ns / MAX in both modes.
#[test]
fn t9b_real_clock_extremes() {
    quiet_panics();
    let dev = Dev::new();
    for threads in [0usize, 4] {
        let rt = if threads == 0 { tokio::runtime::Builder::new_current_thread().enable_all().build().unwrap() } else { tokio::runtime::Builder::new_multi_thread().worker_threads(threads).enable_all().build().unwrap() };
        rt.block_on(async {
            for cancel in [true, false] {
                for to in [Duration::ZERO, Duration::from_nanos(1), Duration::MAX, Duration::from_secs(u64::MAX / 2)] {
                    let tag = format!("threads={threads} cancel={cancel} timeout={to:?}");
                    let (inner, sh) = Inner::new();
                    let mut svc = TimeLimiterLayer::builder().timeout_duration(to).cancel_running_future(cancel).build().layer(inner);
                    // a never-completing inner
                    let r = tokio::time::timeout(ms(120), catch(svc.ready().await.unwrap().call(Req::new(1, Mode::Never)))).await;
                    if to > Duration::from_secs(1) { dev.check(r.is_err(), || format!("{tag}: never-completing inner decided: {r:?}")); }
                    else { dev.check(matches!(&r, Ok(Ok(Err(TimeLimiterError::Timeout)))), || format!("{tag}: never-completing inner -> {r:?}")); }
                    // an inner that needs 10 ms
                    let r = tokio::time::timeout(ms(300), catch(svc.ready().await.unwrap().call(Req::new(2, Mode::Err(ms(10)))))).await;
                    if to > Duration::from_secs(1) { dev.check(matches!(&r, Ok(Ok(Err(TimeLimiterError::Inner(E(2)))))), || format!("{tag}: 10 ms inner -> {r:?}")); }
                    else { dev.check(matches!(&r, Ok(Ok(Err(TimeLimiterError::Timeout)))), || format!("{tag}: 10 ms inner -> {r:?}")); }
                    dev.check(sh.contract_violations.load(SeqCst) == 0, || format!("{tag}: contract"));
                }
            }
        });
    }
    dev.finish("t9b");
}
