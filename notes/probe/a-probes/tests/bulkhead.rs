//! Probes for C01 / C07 / C20 (bulkhead part) against the real crate.
use futures::future::join_all;
use futures::FutureExt;
use probe_a::*;
use std::sync::atomic::{AtomicUsize, Ordering::SeqCst};
use std::sync::Arc;
use std::time::Duration;
use tower::{Layer, Service, ServiceExt};
use tower_resilience_bulkhead::{BulkheadError, BulkheadLayer, BulkheadServiceError};

type Out = Result<u64, BulkheadServiceError<E>>;

fn is_timeout(r: &Out) -> bool {
    matches!(r, Err(BulkheadServiceError::Bulkhead(BulkheadError::Timeout)))
}

/// B1: construction with extreme capacities; every max_concurrent_calls >= 1 is in C01's quantifier.
#[test]
fn b1_capacity_extremes_construct() {
    quiet_panics();
    let dev = Dev::new();
    let max_permits = usize::MAX >> 3;
    for cap in [1usize, 2, 25, 1 << 20, max_permits, max_permits + 1, usize::MAX / 2, usize::MAX] {
        let r = std::panic::catch_unwind(|| {
            let (inner, _s) = Inner::new();
            let layer = BulkheadLayer::builder().max_concurrent_calls(cap).build();
            let _svc = layer.layer(inner);
        });
        eprintln!("cap={cap:#x}: layer() {}", if r.is_ok() { "ok" } else { "PANICS" });
        dev.check(r.is_ok(), || format!("max_concurrent_calls({cap:#x}): layer() panics"));
    }
    dev.finish("b1");
}

/// B1b: huge-but-accepted capacity and every max_wait setting: calls pass, watermark sane.
#[tokio::test(start_paused = true)]
async fn b1b_wait_extremes_pass_through() {
    quiet_panics();
    let dev = Dev::new();
    let waits: Vec<Option<Duration>> = vec![
        None,
        Some(Duration::ZERO),
        Some(Duration::from_nanos(1)),
        Some(Duration::from_millis(1)),
        Some(Duration::MAX),
    ];
    for cap in [1usize, 3, usize::MAX >> 3] {
        for w in &waits {
            let (inner, sh) = Inner::new();
            let mut b = BulkheadLayer::builder().max_concurrent_calls(cap);
            if let Some(d) = w {
                b = b.max_wait_duration(*d);
            }
            let mut svc = b.build().layer(inner);
            // sequential: 5 calls, all must pass unchanged
            for i in 0..5u64 {
                let r: Result<Out, _> = tokio::time::timeout(
                    Duration::from_secs(3600),
                    catch(svc.ready().await.unwrap().call(Req::ok(i))),
                )
                .await
                .map_err(|_| ())
                .and_then(|x| x);
                dev.check(matches!(r, Ok(Ok(v)) if v == i), || {
                    format!("cap={cap:#x} wait={w:?} call {i}: {r:?}")
                });
            }
            // cap+2 simultaneous gated callers for small caps
            if cap <= 3 {
                let gate = Arc::new(tokio::sync::Semaphore::new(0));
                let mut futs = vec![];
                for i in 0..(cap as u64 + 2) {
                    let mut c = svc.clone();
                    let g = gate.clone();
                    futs.push(tokio::spawn(async move {
                        c.ready().await.unwrap().call(Req::new(100 + i, Mode::Gate(g))).await
                    }));
                }
                for _ in 0..20 {
                    tokio::task::yield_now().await;
                }
                dev.check(sh.in_flight.load(SeqCst) == cap, || {
                    format!("cap={cap} wait={w:?}: in flight {} with cap+2 callers", sh.in_flight.load(SeqCst))
                });
                // release everything
                gate.add_permits(100);
                let rs = join_all(futs).await;
                let oks = rs.iter().filter(|r| matches!(r, Ok(Ok(_)))).count();
                let tos = rs.iter().filter(|r| matches!(r, Ok(r) if is_timeout(r))).count();
                dev.check(oks + tos == cap + 2, || format!("cap={cap} wait={w:?}: results {rs:?}"));
                match w {
                    None | Some(Duration::MAX) => dev.check(oks == cap + 2, || format!("cap={cap} wait={w:?}: oks={oks}")),
                    Some(d) if d.is_zero() => dev.check(oks == cap && tos == 2, || format!("cap={cap} wait=0: oks={oks} tos={tos}")),
                    _ => {}
                }
                dev.check(sh.max_in_flight.load(SeqCst) <= cap, || {
                    format!("cap={cap} wait={w:?}: watermark {}", sh.max_in_flight.load(SeqCst))
                });
                dev.check(sh.calls.load(SeqCst) == 5 + oks, || {
                    format!("cap={cap} wait={w:?}: inner calls {} but {} admitted", sh.calls.load(SeqCst), 5 + oks)
                });
            }
            dev.check(sh.contract_violations.load(SeqCst) == 0, || format!("cap={cap} wait={w:?}: readiness contract violated"));
        }
    }
    dev.finish("b1b");
}

/// B2: builder routes: setters twice / unusual orders / presets; clones share, a second layer() does not.
#[tokio::test(start_paused = true)]
async fn b2_builder_routes() {
    quiet_panics();
    let dev = Dev::new();
    // (builder, expected cap, expected: rejects at once when full?)
    let routes: Vec<(&str, tower_resilience_bulkhead::BulkheadConfigBuilder, usize, Option<Duration>)> = vec![
        ("default", BulkheadLayer::builder(), 25, None),
        ("Default::default", Default::default(), 25, None),
        ("small", BulkheadLayer::small(), 10, Some(Duration::ZERO)),
        ("medium", BulkheadLayer::medium(), 50, Some(Duration::ZERO)),
        ("large", BulkheadLayer::large(), 200, Some(Duration::ZERO)),
        ("cap twice", BulkheadLayer::builder().max_concurrent_calls(7).max_concurrent_calls(2), 2, None),
        ("reject then wait", BulkheadLayer::builder().max_concurrent_calls(2).reject_when_full().max_wait_duration(Duration::from_millis(30)), 2, Some(Duration::from_millis(30))),
        ("wait then reject", BulkheadLayer::builder().max_concurrent_calls(2).max_wait_duration(Duration::from_millis(30)).reject_when_full(), 2, Some(Duration::ZERO)),
        ("small customised", BulkheadLayer::small().max_concurrent_calls(3).name("x").name("y"), 3, Some(Duration::ZERO)),
    ];
    for (name, b, cap, wait) in routes {
        let (inner, sh) = Inner::new();
        let layer = b.build();
        let layer2 = layer.clone();
        let svc = layer.layer(inner.clone());
        let gate = Arc::new(tokio::sync::Semaphore::new(0));
        let t0 = tokio::time::Instant::now();
        let mut hs = vec![];
        for i in 0..(cap as u64 + 1) {
            let mut c = svc.clone();
            let g = gate.clone();
            hs.push(tokio::spawn(async move {
                let r = c.ready().await.unwrap().call(Req::new(i, Mode::Gate(g))).await;
                (r, tokio::time::Instant::now())
            }));
            for _ in 0..3 {
                tokio::task::yield_now().await;
            }
        }
        for _ in 0..10 {
            tokio::task::yield_now().await;
        }
        dev.check(sh.in_flight.load(SeqCst) == cap, || format!("{name}: in flight {} != cap {cap}", sh.in_flight.load(SeqCst)));
        match wait {
            Some(d) => {
                // the (cap+1)-th caller must be rejected exactly d after it arrived
                let (r, at) = hs.pop().unwrap().await.unwrap();
                dev.check(is_timeout(&r), || format!("{name}: extra caller got {r:?}"));
                let el = at - t0;
                dev.check(el >= d && el <= d + Duration::from_millis(2), || format!("{name}: rejected after {el:?}, max_wait {d:?}"));
            }
            None => {
                tokio::time::sleep(Duration::from_secs(100_000)).await;
                dev.check(!hs.last().unwrap().is_finished(), || format!("{name}: waiting caller decided without a slot"));
            }
        }
        // a service from a clone of the layer is a different bulkhead (own semaphore): it admits although the first is full
        let mut other = layer2.layer(inner.clone());
        let r = other.ready().await.unwrap().call(Req::ok(999)).await;
        dev.check(matches!(r, Ok(999)), || format!("{name}: second layer() service: {r:?}"));
        gate.add_permits(1000);
        for h in hs {
            let (r, _) = h.await.unwrap();
            dev.check(r.is_ok(), || format!("{name}: admitted caller ended {r:?}"));
        }
        dev.check(sh.max_in_flight.load(SeqCst) <= cap + 1, || format!("{name}: watermark")); // +1: the other bulkhead's call
        dev.check(sh.contract_violations.load(SeqCst) == 0, || format!("{name}: readiness contract violated"));
    }
    dev.finish("b2");
}

/// B3: listeners that panic (plain and with a payload whose Drop panics) on every event kind.
#[tokio::test(start_paused = true)]
async fn b3_listeners_only_observe() {
    quiet_panics();
    let dev = Dev::new();
    for nasty in [Nasty::No, Nasty::PanicStr, Nasty::PanicAnyDropPanics] {
        let counts = Arc::new([AtomicUsize::new(0), AtomicUsize::new(0), AtomicUsize::new(0), AtomicUsize::new(0)]);
        let tail = Arc::new([AtomicUsize::new(0), AtomicUsize::new(0), AtomicUsize::new(0), AtomicUsize::new(0)]);
        let (c, t) = (counts.clone(), tail.clone());
        let (c1, c2, c3, c4) = (c.clone(), c.clone(), c.clone(), c.clone());
        let (t1, t2, t3, t4) = (t.clone(), t.clone(), t.clone(), t.clone());
        let layer = BulkheadLayer::builder()
            .max_concurrent_calls(2)
            .max_wait_duration(Duration::from_millis(10))
            .on_call_permitted(move |_| { c1[0].fetch_add(1, SeqCst); misbehave(nasty) })
            .on_call_rejected(move |_| { c2[1].fetch_add(1, SeqCst); misbehave(nasty) })
            .on_call_finished(move |_| { c3[2].fetch_add(1, SeqCst); misbehave(nasty) })
            .on_call_failed(move |_| { c4[3].fetch_add(1, SeqCst); misbehave(nasty) })
            // listeners registered after the nasty ones must still see every event
            .on_call_permitted(move |_| { t1[0].fetch_add(1, SeqCst); })
            .on_call_rejected(move |_| { t2[1].fetch_add(1, SeqCst); })
            .on_call_finished(move |_| { t3[2].fetch_add(1, SeqCst); })
            .on_call_failed(move |_| { t4[3].fetch_add(1, SeqCst); })
            .build();
        let (inner, sh) = Inner::new();
        let mut svc = layer.layer(inner);
        let r = catch(svc.ready().await.unwrap().call(Req::ok(1))).await;
        dev.check(matches!(r, Ok(Ok(1))), || format!("{nasty:?}: ok call -> {r:?}"));
        let r = catch(svc.ready().await.unwrap().call(Req::new(2, Mode::Err(Duration::from_millis(3))))).await;
        dev.check(matches!(&r, Ok(Err(BulkheadServiceError::Inner(E(2))))), || format!("{nasty:?}: err call -> {r:?}"));
        // fill, then one rejected
        let gate = Arc::new(tokio::sync::Semaphore::new(0));
        let mut hs = vec![];
        for i in 0..3u64 {
            let mut c = svc.clone();
            let g = gate.clone();
            hs.push(tokio::spawn(async move { catch(c.ready().await.unwrap().call(Req::new(10 + i, Mode::Gate(g)))).await }));
            tokio::task::yield_now().await;
        }
        tokio::time::sleep(Duration::from_millis(20)).await;
        let r = hs.pop().unwrap().await.unwrap();
        dev.check(matches!(&r, Ok(r) if is_timeout(r)), || format!("{nasty:?}: third caller -> {r:?}"));
        gate.add_permits(10);
        for h in hs {
            let r = h.await.unwrap();
            dev.check(matches!(r, Ok(Ok(_))), || format!("{nasty:?}: gated caller -> {r:?}"));
        }
        let got: Vec<usize> = counts.iter().map(|a| a.load(SeqCst)).collect();
        let gott: Vec<usize> = tail.iter().map(|a| a.load(SeqCst)).collect();
        dev.check(got == vec![4, 1, 3, 1], || format!("{nasty:?}: first listeners saw {got:?}, expected [4,1,3,1]"));
        dev.check(gott == vec![4, 1, 3, 1], || format!("{nasty:?}: later listeners saw {gott:?}, expected [4,1,3,1]"));
        dev.check(sh.calls.load(SeqCst) == 4, || format!("{nasty:?}: inner calls {}", sh.calls.load(SeqCst)));
        // capacity intact
        let gate = Arc::new(tokio::sync::Semaphore::new(0));
        let mut hs = vec![];
        for i in 0..2u64 {
            let mut c = svc.clone();
            let g = gate.clone();
            hs.push(tokio::spawn(async move { c.ready().await.unwrap().call(Req::new(20 + i, Mode::Gate(g))).await }));
        }
        for _ in 0..10 { tokio::task::yield_now().await; }
        dev.check(sh.in_flight.load(SeqCst) == 2, || format!("{nasty:?}: capacity after history: {}", sh.in_flight.load(SeqCst)));
        gate.add_permits(10);
        join_all(hs).await;
    }
    dev.finish("b3");
}

/// B4/B5/B6: histories of panics (sync, future, nasty payload), never-completing + drops at every
/// point, readiness pending / failing; then a full-capacity probe; rejected calls never reach inner.
#[tokio::test(start_paused = true)]
async fn b4_histories_then_full_capacity() {
    quiet_panics();
    let dev = Dev::new();
    for wait in [None, Some(Duration::ZERO), Some(Duration::from_millis(5)), Some(Duration::MAX)] {
        let cap = 3usize;
        let (inner, sh) = Inner::new();
        let mut b = BulkheadLayer::builder().max_concurrent_calls(cap);
        if let Some(d) = wait { b = b.max_wait_duration(d); }
        let mut svc = b.build().layer(inner);

        // panics of all three kinds
        for (i, m) in [Mode::PanicSync, Mode::PanicFut, Mode::PanicFutNasty].into_iter().enumerate() {
            let r = catch(svc.ready().await.unwrap().call(Req::new(i as u64, m.clone()))).await;
            dev.check(r.is_err(), || format!("wait={wait:?}: {m:?} did not propagate: {r:?}"));
        }
        // dropped before first poll: never reaches inner
        let calls0 = sh.calls.load(SeqCst);
        let f = svc.ready().await.unwrap().call(Req::ok(50));
        drop(f);
        dev.check(sh.calls.load(SeqCst) == calls0, || format!("wait={wait:?}: unpolled dropped future reached inner"));
        // running never-completing calls, dropped while running
        let mut running = vec![];
        for i in 0..cap as u64 {
            let mut f = svc.ready().await.unwrap().call(Req::new(60 + i, Mode::Never));
            dev.check((&mut f).now_or_never().is_none(), || "never-completing call completed".into());
            running.push(f);
        }
        dev.check(sh.in_flight.load(SeqCst) == cap, || format!("wait={wait:?}: in flight {}", sh.in_flight.load(SeqCst)));
        // queued callers, dropped while queued (only meaningful when they may wait)
        let calls1 = sh.calls.load(SeqCst);
        let mut queued = vec![];
        for i in 0..2u64 {
            let mut f = svc.ready().await.unwrap().call(Req::ok(70 + i));
            let r = (&mut f).now_or_never();
            match wait {
                Some(d) if d.is_zero() => dev.check(matches!(&r, Some(r) if is_timeout(r)), || format!("wait=0: queued caller -> {r:?}")),
                _ => dev.check(r.is_none(), || format!("wait={wait:?}: queued caller -> {r:?}")),
            }
            queued.push(f);
        }
        // drop one queued, then one running in the same instant: the remaining queued caller must get the slot
        let q_keep = queued.pop().unwrap();
        drop(queued);
        running.pop();
        let keep = tokio::spawn(q_keep);
        for _ in 0..5 { tokio::task::yield_now().await; }
        if !matches!(wait, Some(d) if d.is_zero()) {
            let r = keep.await.unwrap();
            dev.check(matches!(r, Ok(71)), || format!("wait={wait:?}: queued caller after release -> {r:?}"));
            dev.check(sh.calls.load(SeqCst) == calls1 + 1, || format!("wait={wait:?}: cancelled queued caller reached inner ({} calls)", sh.calls.load(SeqCst) - calls1));
        } else {
            dev.check(sh.calls.load(SeqCst) == calls1, || "wait=0: rejected caller reached inner".to_string());
        }
        drop(running);
        dev.check(sh.in_flight.load(SeqCst) == 0, || format!("wait={wait:?}: in flight after drops {}", sh.in_flight.load(SeqCst)));

        // readiness: pending a few times, then failing once
        sh.pending_left.store(3, SeqCst);
        let r = svc.ready().await.unwrap().call(Req::ok(80)).await;
        dev.check(matches!(r, Ok(80)), || format!("wait={wait:?}: after pending readiness -> {r:?}"));
        sh.fail_ready.store(true, SeqCst);
        let calls2 = sh.calls.load(SeqCst);
        match svc.ready().await {
            Err(BulkheadServiceError::Inner(E(u64::MAX))) => {}
            Err(e) => dev.check(false, || format!("wait={wait:?}: readiness error surfaced as {e:?}")),
            Ok(_) => dev.check(false, || format!("wait={wait:?}: readiness error swallowed")),
        }
        dev.check(sh.calls.load(SeqCst) == calls2, || "failed readiness reached inner".to_string());

        // full-capacity probe: cap gated calls all start at once, the next one does not
        let gate = Arc::new(tokio::sync::Semaphore::new(0));
        let mut fs = vec![];
        for i in 0..cap as u64 {
            let mut f = svc.ready().await.unwrap().call(Req::new(90 + i, Mode::Gate(gate.clone())));
            dev.check((&mut f).now_or_never().is_none(), || "gated call completed".into());
            fs.push(f);
        }
        dev.check(sh.in_flight.load(SeqCst) == cap, || format!("wait={wait:?}: CAPACITY LOST: probe admits {} of {cap}", sh.in_flight.load(SeqCst)));
        gate.add_permits(100);
        for r in join_all(fs).await { dev.check(r.is_ok(), || format!("probe call -> {r:?}")); }
        dev.check(sh.max_in_flight.load(SeqCst) <= cap, || format!("wait={wait:?}: watermark {}", sh.max_in_flight.load(SeqCst)));
        dev.check(sh.contract_violations.load(SeqCst) == 0, || format!("wait={wait:?}: readiness contract violated {} times", sh.contract_violations.load(SeqCst)));
    }
    dev.finish("b4");
}

/// B7: rejection exactly max_wait after arrival (sub-ms, ms, long), never early, rejected never reaches inner.
#[tokio::test(start_paused = true)]
async fn b7_rejection_instant() {
    quiet_panics();
    let dev = Dev::new();
    for w in [Duration::from_nanos(1), Duration::from_micros(1500), Duration::from_millis(7), Duration::from_secs(86_400 * 365 * 3)] {
        let (inner, sh) = Inner::new();
        let mut svc = BulkheadLayer::builder().max_concurrent_calls(1).max_wait_duration(w).build().layer(inner);
        let mut holder = svc.ready().await.unwrap().call(Req::new(1, Mode::Never));
        assert!((&mut holder).now_or_never().is_none());
        tokio::time::sleep(Duration::from_micros(300)).await;
        let fut = svc.ready().await.unwrap().call(Req::ok(2));
        // call() made now, first poll 2 ms later: the wait counts from the first poll (arrival)
        let t_call = tokio::time::Instant::now();
        let r = fut.await;
        let el = tokio::time::Instant::now() - t_call;
        dev.check(is_timeout(&r), || format!("w={w:?}: {r:?}"));
        dev.check(el >= w && el <= w + Duration::from_millis(2), || format!("w={w:?}: rejected after {el:?}"));
        dev.check(sh.calls.load(SeqCst) == 1, || format!("w={w:?}: rejected call reached inner"));
        drop(holder);
        let r = svc.ready().await.unwrap().call(Req::ok(3)).await;
        dev.check(matches!(r, Ok(3)), || format!("w={w:?}: after release {r:?}"));
    }
    dev.finish("b7");
}

/// B8: multi-thread runtime, real clock, random cancellations: watermark and capacity.
#[test]
fn b8_multithread_stress() {
    quiet_panics();
    let dev = Dev::new();
    let rt = tokio::runtime::Builder::new_multi_thread().worker_threads(8).enable_all().build().unwrap();
    rt.block_on(async {
        for (cap, wait) in [(1usize, None), (3, Some(Duration::ZERO)), (4, Some(Duration::from_millis(2))), (2, Some(Duration::MAX))] {
            let (inner, sh) = Inner::new();
            let mut b = BulkheadLayer::builder().max_concurrent_calls(cap);
            if let Some(d) = wait { b = b.max_wait_duration(d); }
            let svc = b.build().layer(inner);
            let mut hs = vec![];
            for i in 0..1500u64 {
                let mut c = svc.clone();
                hs.push(tokio::spawn(async move {
                    let mode = match i % 7 {
                        0 => Mode::PanicFut,
                        1 => Mode::Err(Duration::from_micros(200)),
                        2 => Mode::Never,
                        3 => Mode::PanicSync,
                        _ => Mode::Ok(Duration::from_micros(100 * (i % 5))),
                    };
                    let f = c.ready().await.unwrap().call(Req::new(i, mode));
                    // cancel after a pseudo-random delay
                    let _ = tokio::time::timeout(Duration::from_micros(50 + (i * 37) % 3000), catch(f)).await;
                }));
            }
            for h in hs { let _ = h.await; }
            dev.check(sh.max_in_flight.load(SeqCst) <= cap, || format!("cap={cap} wait={wait:?}: WATERMARK {}", sh.max_in_flight.load(SeqCst)));
            dev.check(sh.in_flight.load(SeqCst) == 0, || format!("cap={cap}: in flight at rest {}", sh.in_flight.load(SeqCst)));
            // full-capacity probe
            let gate = Arc::new(tokio::sync::Semaphore::new(0));
            let mut hs = vec![];
            for i in 0..cap as u64 {
                let mut c = svc.clone();
                let g = gate.clone();
                hs.push(tokio::spawn(async move { c.ready().await.unwrap().call(Req::new(i, Mode::Gate(g))).await }));
            }
            tokio::time::sleep(Duration::from_millis(50)).await;
            dev.check(sh.in_flight.load(SeqCst) == cap, || format!("cap={cap} wait={wait:?}: CAPACITY after stress {}", sh.in_flight.load(SeqCst)));
            gate.add_permits(100);
            for h in hs { let _ = h.await; }
            dev.check(sh.contract_violations.load(SeqCst) == 0, || format!("cap={cap}: contract violations {}", sh.contract_violations.load(SeqCst)));
        }
    });
    dev.finish("b8");
}

/// B9: over tower's ConcurrencyLimit and Buffer (services that reserve in poll_ready).
#[tokio::test(start_paused = true)]
async fn b9_over_reserving_services() {
    quiet_panics();
    let dev = Dev::new();
    let (inner, sh) = Inner::new();
    let cl = tower::limit::ConcurrencyLimit::new(inner, 2);
    let mut svc = BulkheadLayer::builder().max_concurrent_calls(3).build().layer(cl);
    for i in 0..10u64 {
        let r = catch(svc.ready().await.unwrap().call(Req::ok(i))).await;
        dev.check(matches!(r, Ok(Ok(v)) if v == i), || format!("over ConcurrencyLimit call {i}: {r:?}"));
    }
    let mut hs = vec![];
    for i in 0..6u64 {
        let mut c = svc.clone();
        hs.push(tokio::spawn(async move { c.ready().await.unwrap().call(Req::new(i, Mode::Ok(Duration::from_millis(5)))).await }));
    }
    for h in hs { let r = h.await.unwrap(); dev.check(r.is_ok(), || format!("{r:?}")); }
    dev.check(sh.max_in_flight.load(SeqCst) <= 2, || format!("inner watermark {}", sh.max_in_flight.load(SeqCst)));
    dev.check(sh.contract_violations.load(SeqCst) == 0, || "contract".into());

    let (inner, sh) = Inner::new();
    let buf = tower::buffer::Buffer::new(inner, 2);
    let mut svc = BulkheadLayer::small().build().layer(buf);
    for i in 0..10u64 {
        let r = catch(svc.ready().await.unwrap().call(Req::ok(i))).await;
        dev.check(matches!(r, Ok(Ok(v)) if v == i), || format!("over Buffer call {i}: {r:?}"));
    }
    dev.check(sh.contract_violations.load(SeqCst) == 0, || "contract (buffer)".into());
    dev.finish("b9");
}

/// B10: one task polling hundreds of fresh callers (tokio cooperative budget runs out after 128):
/// nobody may be rejected while a slot is free, nobody may hang.
#[tokio::test(start_paused = true)]
async fn b10_coop_budget_crowd() {
    quiet_panics();
    let dev = Dev::new();
    // (a) instantly finishing inner, preset small(): callers run one after another inside join_all
    let (inner, sh) = Inner::new();
    let svc = BulkheadLayer::small().build().layer(inner);
    let futs: Vec<_> = (0..400u64).map(|i| { let mut c = svc.clone(); async move { c.ready().await.unwrap().call(Req::ok(i)).await } }).collect();
    let rs = tokio::time::timeout(Duration::from_secs(10), join_all(futs)).await;
    match rs {
        Err(_) => dev.check(false, || "(a) crowd hangs".into()),
        Ok(rs) => {
            let rej = rs.iter().filter(|r| is_timeout(r)).count();
            dev.check(rej == 0, || format!("(a) {rej} of 400 callers rejected although every earlier call had finished"));
        }
    }
    dev.check(sh.max_in_flight.load(SeqCst) <= 10, || "watermark".into());
    // (b) gated inner: exactly 10 admitted, 390 rejected at once, none hangs
    let (inner, sh) = Inner::new();
    let svc = BulkheadLayer::small().build().layer(inner);
    let gate = Arc::new(tokio::sync::Semaphore::new(0));
    let t0 = tokio::time::Instant::now();
    let futs: Vec<_> = (0..400u64).map(|i| { let mut c = svc.clone(); let g = gate.clone(); async move { let r = c.ready().await.unwrap().call(Req::new(i, Mode::Gate(g))).await; (r, tokio::time::Instant::now()) } }).collect();
    let all = tokio::spawn(join_all(futs));
    for _ in 0..50 { tokio::task::yield_now().await; }
    dev.check(sh.in_flight.load(SeqCst) == 10, || format!("(b) in flight {}", sh.in_flight.load(SeqCst)));
    gate.add_permits(1000);
    match tokio::time::timeout(Duration::from_secs(10), all).await {
        Err(_) => dev.check(false, || "(b) crowd hangs".into()),
        Ok(rs) => {
            let rs = rs.unwrap();
            let oks = rs.iter().filter(|r| r.0.is_ok()).count();
            let late = rs.iter().filter(|r| is_timeout(&r.0) && r.1 != t0).count();
            dev.check(oks == 10, || format!("(b) admitted {oks}"));
            dev.check(late == 0, || format!("(b) {late} rejections not at the arrival instant"));
        }
    }
    dev.finish("b10");
}

/// B11: every service handle dropped while callers are queued / running: the futures own what they need.
#[tokio::test(start_paused = true)]
async fn b11_handles_dropped() {
    quiet_panics();
    let dev = Dev::new();
    for wait in [None, Some(Duration::from_millis(50))] {
        let (inner, sh) = Inner::new();
        let mut b = BulkheadLayer::builder().max_concurrent_calls(2);
        if let Some(d) = wait { b = b.max_wait_duration(d); }
        let layer = b.build();
        let mut svc = layer.layer(inner);
        let gate = Arc::new(tokio::sync::Semaphore::new(0));
        let mut fs = vec![];
        for i in 0..4u64 {
            let mut c = svc.clone();
            let mut f = c.ready().await.unwrap().call(Req::new(i, Mode::Gate(gate.clone())));
            assert!((&mut f).now_or_never().is_none());
            fs.push(f);
        }
        let unpolled = svc.ready().await.unwrap().call(Req::ok(9));
        drop(svc);
        drop(layer);
        dev.check(sh.in_flight.load(SeqCst) == 2, || format!("in flight {}", sh.in_flight.load(SeqCst)));
        tokio::time::sleep(Duration::from_millis(10)).await;
        gate.add_permits(10);
        let rs = join_all(fs).await;
        dev.check(rs.iter().all(|r| r.is_ok()), || format!("wait={wait:?}: after all handles were dropped: {rs:?}"));
        let r = unpolled.await;
        dev.check(matches!(r, Ok(9)), || format!("wait={wait:?}: never-polled future after the handles are gone: {r:?}"));
        dev.check(sh.max_in_flight.load(SeqCst) <= 2, || "watermark".into());
    }
    dev.finish("b11");
}
