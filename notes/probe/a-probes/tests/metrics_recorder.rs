//! Informational (needs --features metrics): a metrics recorder that panics on demand. A recorder is not an
//! event listener, so an outcome change is not a C20 violation; what must still hold is C07/C15 bookkeeping:
//! no bulkhead slot lost, no poisoned limiter lock.
#![cfg(feature = "metrics")]
use futures::FutureExt;
use metrics::{Counter, Gauge, Histogram, Key, KeyName, Metadata, Recorder, SharedString, Unit};
use probe_a::*;
use std::sync::atomic::{AtomicBool, Ordering::SeqCst};
use std::time::Duration;
use tower::{Layer, Service, ServiceExt};

static ARMED: AtomicBool = AtomicBool::new(false);
struct Rec;
fn boom() { if ARMED.load(SeqCst) { panic!("recorder panics"); } }
impl Recorder for Rec {
    fn describe_counter(&self, _: KeyName, _: Option<Unit>, _: SharedString) {}
    fn describe_gauge(&self, _: KeyName, _: Option<Unit>, _: SharedString) {}
    fn describe_histogram(&self, _: KeyName, _: Option<Unit>, _: SharedString) {}
    fn register_counter(&self, _: &Key, _: &Metadata<'_>) -> Counter { boom(); Counter::noop() }
    fn register_gauge(&self, _: &Key, _: &Metadata<'_>) -> Gauge { boom(); Gauge::noop() }
    fn register_histogram(&self, _: &Key, _: &Metadata<'_>) -> Histogram { boom(); Histogram::noop() }
}

#[tokio::test(start_paused = true)]
async fn recorder_panics() {
    quiet_panics();
    let dev = Dev::new();
    let _ = metrics::set_global_recorder(Rec);
    // bulkhead
    let (inner, sh) = Inner::new();
    let mut svc = tower_resilience_bulkhead::BulkheadLayer::builder().max_concurrent_calls(2).max_wait_duration(Duration::from_millis(5)).build().layer(inner);
    ARMED.store(true, SeqCst);
    for i in 0..5u64 {
        let r = catch(svc.ready().await.unwrap().call(Req::ok(i))).await;
        eprintln!("NOTE bulkhead call {i} with a panicking recorder: {r:?}, inner calls so far {}", sh.calls.load(SeqCst));
    }
    ARMED.store(false, SeqCst);
    let gate = std::sync::Arc::new(tokio::sync::Semaphore::new(0));
    let mut fs = vec![];
    for i in 0..2u64 { let mut f = svc.ready().await.unwrap().call(Req::new(10 + i, Mode::Gate(gate.clone()))); assert!((&mut f).now_or_never().is_none()); fs.push(f); }
    dev.check(sh.in_flight.load(SeqCst) == 2, || format!("bulkhead: CAPACITY LOST after recorder panics: {} of 2", sh.in_flight.load(SeqCst)));
    drop(fs);
    // time limiter
    for cancel in [true, false] {
        let (inner, _sh) = Inner::new();
        let mut svc = tower_resilience_timelimiter::TimeLimiterLayer::builder().timeout_duration(Duration::from_millis(5)).cancel_running_future(cancel).build().layer(inner);
        ARMED.store(true, SeqCst);
        let r = catch(svc.ready().await.unwrap().call(Req::ok(1))).await;
        eprintln!("NOTE timelimiter cancel={cancel} with a panicking recorder: {r:?}");
        ARMED.store(false, SeqCst);
        let r = catch(svc.ready().await.unwrap().call(Req::ok(2))).await;
        dev.check(matches!(r, Ok(Ok(2))), || format!("timelimiter after recorder panic: {r:?}"));
    }
    dev.finish("metrics_recorder");
}

#[test]
fn recorder_panics_ratelimiter() {
    quiet_panics();
    let dev = Dev::new();
    let _ = metrics::set_global_recorder(Rec);
    let rt = tokio::runtime::Builder::new_current_thread().enable_all().build().unwrap();
    rt.block_on(async {
        for wt in [tower_resilience_ratelimiter::WindowType::Fixed, tower_resilience_ratelimiter::WindowType::SlidingLog, tower_resilience_ratelimiter::WindowType::SlidingCounter] {
            let (inner, sh) = Inner::new();
            let mut svc = tower_resilience_ratelimiter::RateLimiterLayer::builder().window_type(wt).limit_for_period(2).refresh_period(Duration::from_millis(30)).timeout_duration(Duration::ZERO).build().layer(inner);
            ARMED.store(true, SeqCst);
            for i in 0..3u64 {
                let r = catch(svc.ready().await.unwrap().call(Req::ok(i))).await;
                eprintln!("NOTE ratelimiter {wt:?} call {i} with a panicking recorder: {r:?}, inner calls so far {}", sh.calls.load(SeqCst));
            }
            ARMED.store(false, SeqCst);
            tokio::time::sleep(Duration::from_millis(65)).await;
            let r = catch(svc.ready().await.unwrap().call(Req::ok(9))).await;
            dev.check(matches!(r, Ok(Ok(9))), || format!("ratelimiter {wt:?} after recorder panics: {r:?}"));
        }
    });
    dev.finish("metrics_recorder_rl");
}
