//! Focused: how late is a rate-limiter decision relative to timeout_duration (the limiter's own measure)?
use probe_a::*;
use std::sync::{Arc, Mutex};
use std::time::{Duration, Instant};
use tower::{Layer, Service, ServiceExt};
use tower_resilience_ratelimiter::{RateLimiterLayer, WindowType};

#[test]
fn deadline_overshoot() {
    for threads in [0usize, 8] {
        for wt in [WindowType::Fixed, WindowType::SlidingLog, WindowType::SlidingCounter] {
            for (limit, timeout_ms) in [(1usize, 25u64), (5, 50), (2, 110)] {
                let mut worst_acq = Duration::ZERO;
                let mut worst_total = Duration::ZERO;
                let mut worst_rej = Duration::ZERO;
                for _rep in 0..6 {
                    let p = Duration::from_millis(50);
                    let timeout = Duration::from_millis(timeout_ms);
                    let waits = Arc::new(Mutex::new(Vec::<Duration>::new()));
                    let w = waits.clone();
                    let (inner, _sh) = Inner::new();
                    let svc = RateLimiterLayer::builder().window_type(wt).limit_for_period(limit).refresh_period(p).timeout_duration(timeout)
                        .on_permit_acquired(move |d| w.lock().unwrap().push(d)).build().layer(inner);
                    let rt = if threads == 0 { tokio::runtime::Builder::new_current_thread().enable_all().build().unwrap() } else { tokio::runtime::Builder::new_multi_thread().worker_threads(threads).enable_all().build().unwrap() };
                    let outs = rt.block_on(async {
                        let mut hs = vec![];
                        for i in 0..14u64 {
                            let mut c = svc.clone();
                            hs.push(tokio::spawn(async move {
                                let f = c.ready().await.unwrap().call(Req::ok(i));
                                let t0 = Instant::now();
                                let r = f.await;
                                (r.is_ok(), t0.elapsed())
                            }));
                            tokio::time::sleep(Duration::from_micros(700)).await;
                        }
                        let mut v = vec![];
                        for h in hs { v.push(h.await.unwrap()); }
                        v
                    });
                    for d in waits.lock().unwrap().iter() { worst_acq = worst_acq.max(*d); }
                    for (ok, el) in outs { if ok { worst_total = worst_total.max(el) } else { worst_rej = worst_rej.max(el) } }
                }
                println!("threads={threads} {wt:?} limit={limit} timeout={timeout_ms}ms: worst wait reported by limiter {:?}, worst admitted total {:?}, worst rejection {:?}", worst_acq, worst_total, worst_rej);
            }
        }
    }
}
