//! Shared instruments for the probe tests (tag a): a strict, scripted inner service,
//! listener helpers that panic in nasty ways, and a deviation collector.
use std::future::Future;
use std::pin::Pin;
use std::sync::atomic::{AtomicBool, AtomicUsize, Ordering::SeqCst};
use std::sync::{Arc, Mutex};
use std::task::{Context, Poll};
use std::time::Duration;
use tower::Service;

/// What one request asks the inner service to do.
#[derive(Clone, Debug)]
pub enum Mode {
    /// complete Ok(id) after the latency (0 = ready on first poll)
    Ok(Duration),
    /// complete Err(E(id)) after the latency
    Err(Duration),
    /// never complete
    Never,
    /// panic inside `call()`
    PanicSync,
    /// panic inside the first poll of the returned future
    PanicFut,
    /// panic inside the first poll with a payload whose Drop panics
    PanicFutNasty,
    /// wait for one permit of this semaphore, then Ok(id)
    Gate(Arc<tokio::sync::Semaphore>),
}

#[derive(Clone, Debug)]
pub struct Req {
    pub id: u64,
    pub mode: Mode,
}
impl Req {
    pub fn ok(id: u64) -> Self {
        Req { id, mode: Mode::Ok(Duration::ZERO) }
    }
    pub fn new(id: u64, mode: Mode) -> Self {
        Req { id, mode }
    }
}

#[derive(Debug, PartialEq, Eq, Clone)]
pub struct E(pub u64);
impl std::fmt::Display for E {
    fn fmt(&self, f: &mut std::fmt::Formatter<'_>) -> std::fmt::Result {
        write!(f, "E({})", self.0)
    }
}
impl std::error::Error for E {}

#[derive(Default)]
pub struct Shared {
    pub in_flight: AtomicUsize,
    pub max_in_flight: AtomicUsize,
    pub calls: AtomicUsize,
    pub completed: AtomicUsize,
    pub dropped_unfinished: AtomicUsize,
    /// `call()` on an instance that had not been polled ready since its previous call / clone
    pub contract_violations: AtomicUsize,
    /// (tokio instant, std instant, request id) of every `call()`
    pub log: Mutex<Vec<(tokio::time::Instant, std::time::Instant, u64)>>,
    /// (tokio instant, id) of every drop of an unfinished inner future
    pub drops: Mutex<Vec<(tokio::time::Instant, u64)>>,
    /// (tokio instant, id) of every completion of an inner future
    pub completions: Mutex<Vec<(tokio::time::Instant, u64)>>,
    /// readiness script: number of Pending answers still to give before Ready
    pub pending_left: AtomicUsize,
    /// readiness fails (once) when set
    pub fail_ready: AtomicBool,
    pub ready_polls: AtomicUsize,
}

pub struct Inner {
    pub shared: Arc<Shared>,
    ready: bool,
}
impl Inner {
    pub fn new() -> (Self, Arc<Shared>) {
        let shared = Arc::new(Shared::default());
        (Inner { shared: shared.clone(), ready: false }, shared)
    }
}
impl Clone for Inner {
    fn clone(&self) -> Self {
        // a clone has never been polled ready
        Inner { shared: self.shared.clone(), ready: false }
    }
}

struct Guard {
    shared: Arc<Shared>,
    id: u64,
    done: bool,
}
impl Drop for Guard {
    fn drop(&mut self) {
        self.shared.in_flight.fetch_sub(1, SeqCst);
        if !self.done {
            self.shared.dropped_unfinished.fetch_add(1, SeqCst);
            self.shared.drops.lock().unwrap().push((tokio::time::Instant::now(), self.id));
        }
    }
}

pub struct NastyPayload;
impl Drop for NastyPayload {
    fn drop(&mut self) {
        if !std::thread::panicking() {
            panic!("NastyPayload::drop panics");
        }
    }
}

impl Service<Req> for Inner {
    type Response = u64;
    type Error = E;
    type Future = Pin<Box<dyn Future<Output = Result<u64, E>> + Send>>;

    fn poll_ready(&mut self, cx: &mut Context<'_>) -> Poll<Result<(), E>> {
        self.shared.ready_polls.fetch_add(1, SeqCst);
        if self.shared.fail_ready.swap(false, SeqCst) {
            return Poll::Ready(Err(E(u64::MAX)));
        }
        let left = self.shared.pending_left.load(SeqCst);
        if left > 0 {
            self.shared.pending_left.store(left - 1, SeqCst);
            cx.waker().wake_by_ref();
            return Poll::Pending;
        }
        self.ready = true;
        Poll::Ready(Ok(()))
    }

    fn call(&mut self, req: Req) -> Self::Future {
        if !self.ready {
            self.shared.contract_violations.fetch_add(1, SeqCst);
        }
        self.ready = false;
        self.shared.calls.fetch_add(1, SeqCst);
        self.shared
            .log
            .lock()
            .unwrap()
            .push((tokio::time::Instant::now(), std::time::Instant::now(), req.id));
        if let Mode::PanicSync = req.mode {
            panic!("inner call() panics synchronously");
        }
        let n = self.shared.in_flight.fetch_add(1, SeqCst) + 1;
        self.shared.max_in_flight.fetch_max(n, SeqCst);
        let mut guard = Guard { shared: self.shared.clone(), id: req.id, done: false };
        Box::pin(async move {
            let id = req.id;
            let r = match req.mode {
                Mode::Ok(d) => {
                    if !d.is_zero() {
                        tokio::time::sleep(d).await;
                    }
                    Ok(id)
                }
                Mode::Err(d) => {
                    if !d.is_zero() {
                        tokio::time::sleep(d).await;
                    }
                    Err(E(id))
                }
                Mode::Never => {
                    futures::future::pending::<()>().await;
                    unreachable!()
                }
                Mode::PanicSync => unreachable!(),
                Mode::PanicFut => panic!("inner future panics"),
                Mode::PanicFutNasty => std::panic::panic_any(NastyPayload),
                Mode::Gate(sem) => {
                    let p = sem.acquire().await.unwrap();
                    p.forget();
                    Ok(id)
                }
            };
            guard.done = true;
            guard.shared.completed.fetch_add(1, SeqCst);
            guard.shared.completions.lock().unwrap().push((tokio::time::Instant::now(), id));
            r
        })
    }
}

/// Collects deviations so that one run shows all of them.
#[derive(Default, Clone)]
pub struct Dev(pub Arc<Mutex<Vec<String>>>);
impl Dev {
    pub fn new() -> Self {
        Self::default()
    }
    pub fn check(&self, cond: bool, msg: impl FnOnce() -> String) {
        if !cond {
            let m = msg();
            eprintln!("DEVIATION: {m}");
            self.0.lock().unwrap().push(m);
        }
    }
    pub fn finish(&self, name: &str) {
        let v = self.0.lock().unwrap();
        eprintln!("[{name}] deviations: {}", v.len());
        assert!(v.is_empty(), "{name}: {} deviation(s):\n{}", v.len(), v.join("\n"));
    }
}

/// How a listener misbehaves.
#[derive(Clone, Copy, Debug, PartialEq)]
pub enum Nasty {
    No,
    PanicStr,
    PanicAnyDropPanics,
}
pub fn misbehave(n: Nasty) {
    match n {
        Nasty::No => {}
        Nasty::PanicStr => panic!("listener panics"),
        Nasty::PanicAnyDropPanics => std::panic::panic_any(NastyPayload),
    }
}

/// Silence the default panic hook's output for expected panics (keeps logs readable).
pub fn quiet_panics() {
    static ONCE: std::sync::Once = std::sync::Once::new();
    ONCE.call_once(|| {
        if std::env::var("PROBE_LOUD").is_ok() { return; }
        std::panic::set_hook(Box::new(|_| {}));
    });
}

/// Run a future under catch_unwind; Err(()) if it panicked.
pub async fn catch<F: Future>(f: F) -> Result<F::Output, ()> {
    use futures::FutureExt;
    match std::panic::AssertUnwindSafe(f).catch_unwind().await {
        Ok(v) => Ok(v),
        Err(p) => {
            // the payload's drop may panic too
            let _ = std::panic::catch_unwind(std::panic::AssertUnwindSafe(move || drop(p)));
            Err(())
        }
    }
}
