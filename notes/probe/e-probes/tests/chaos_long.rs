use std::time::Duration;
use tower::{Layer, Service, ServiceExt};
use tower_resilience_chaos::*;

#[tokio::test(start_paused = true)]
async fn long_latency() {
    for ms in [1u64 << 36, (1u64 << 36) + 5, 3 * 365 * 86_400_000, 29 * 365 * 86_400_000, 31 * 365 * 86_400_000u64, 100 * 365 * 86_400_000u64] {
        let l = ChaosLayer::builder().seed(3).latency_rate(1.0).min_latency(Duration::from_millis(ms)).max_latency(Duration::from_millis(ms)).build();
        let mut s = l.layer(tower::service_fn(|x: u64| async move { Ok::<_, String>(x) }));
        let t0 = tokio::time::Instant::now();
        let r = tokio::time::timeout(Duration::from_millis(ms) + Duration::from_secs(1), s.ready().await.unwrap().call(1)).await;
        eprintln!("ms {ms}: result {:?} after {:?} (wanted {:?})", r, t0.elapsed(), Duration::from_millis(ms));
    }
}
