// Probe e: tower-resilience-adaptive (C13, and the adaptive part of C20)
use futures::future::{BoxFuture, FutureExt};
use std::future::Future;
use std::panic::{catch_unwind, AssertUnwindSafe};
use std::pin::Pin;
use std::sync::atomic::{AtomicUsize, Ordering};
use std::sync::{Arc, Mutex};
use std::task::{Context, Poll};
use std::time::Duration;
use tower::{Layer, Service, ServiceExt};
use tower_resilience_adaptive::*;
use tower_resilience_core::aimd::{AimdConfig, AimdController};

fn noop_cx() -> Context<'static> {
    Context::from_waker(futures::task::noop_waker_ref())
}

const EXT: &[usize] = &[0, 1, 2, 3, 10, 1 << 53, (1 << 53) + 1, usize::MAX - 1, usize::MAX];
const FACT: &[f64] = &[0.0, 5e-324, 1e-300, 0.25, 0.5, 0.9999999999999999, 1.0];

#[test]
fn aimd_limit_in_bounds_extremes() {
    let mut n = 0u64;
    for &min in EXT {
        for &max in EXT {
            if min > max {
                continue;
            }
            for &init in EXT {
                for &inc in &[0usize, 1, usize::MAX / 2, usize::MAX] {
                    for &f in FACT {
                        let a = Aimd::builder()
                            .initial_limit(init)
                            .min_limit(min)
                            .max_limit(max)
                            .increase_by(inc)
                            .decrease_factor(f)
                            .latency_threshold(Duration::from_millis(5))
                            .build();
                        let chk = |a: &Aimd, what: &str| {
                            let l = a.limit();
                            assert!(min <= l && l <= max, "{what}: limit {l} outside [{min},{max}] init {init} inc {inc} f {f}");
                        };
                        chk(&a, "initial");
                        // pattern of feedback: s s f slow s f f s
                        for (i, op) in [0, 0, 1, 2, 0, 1, 1, 0, 2, 2, 0].iter().enumerate() {
                            match op {
                                0 => a.record_success(Duration::ZERO),
                                1 => a.record_failure(),
                                _ => a.record_success(Duration::MAX),
                            }
                            a.record_dropped();
                            chk(&a, &format!("step {i}"));
                            n += 1;
                        }
                        assert_eq!(a.min_limit(), min);
                        assert_eq!(a.max_limit(), max);
                    }
                }
            }
        }
    }
    eprintln!("aimd steps checked: {n}");
}

#[test]
fn aimd_controller_direct_extremes() {
    for &min in EXT {
        for &max in EXT {
            if min > max {
                continue;
            }
            for &init in EXT {
                for &f in FACT {
                    let c = AimdController::new(
                        AimdConfig::new()
                            .with_initial_limit(init)
                            .with_min_limit(min)
                            .with_max_limit(max)
                            .with_increase_by(usize::MAX)
                            .with_decrease_factor(f),
                    );
                    let chk = |c: &AimdController| {
                        let l = c.limit();
                        assert!(min <= l && l <= max, "limit {l} outside [{min},{max}]");
                    };
                    chk(&c);
                    c.record_successes(usize::MAX);
                    chk(&c);
                    c.record_failure();
                    chk(&c);
                    c.record_successes(0);
                    chk(&c);
                    c.reset();
                    chk(&c);
                    let d = c.clone();
                    d.record_failure();
                    chk(&d);
                    chk(&c);
                }
            }
        }
    }
}

#[test]
fn vegas_limit_in_bounds_extremes() {
    let lats = [
        Duration::ZERO,
        Duration::from_nanos(1),
        Duration::from_nanos(2),
        Duration::from_millis(1),
        Duration::from_secs(1),
        Duration::from_nanos(u64::MAX),
        Duration::from_nanos(u64::MAX) + Duration::from_nanos(1), // as_nanos() as u64 wraps to 0
        Duration::from_secs(u64::MAX / 1_000_000_000 + 1),
        Duration::MAX,
    ];
    let ab = [0usize, 1, 3, 6, usize::MAX];
    for &min in EXT {
        for &max in EXT {
            if min > max {
                continue;
            }
            for &init in &[0usize, 1, 10, usize::MAX] {
                for &alpha in &ab {
                    for &beta in &ab {
                        let v = Vegas::builder()
                            .initial_limit(init)
                            .min_limit(min)
                            .max_limit(max)
                            .alpha(alpha)
                            .beta(beta)
                            .build();
                        let chk = |what: &str| {
                            let l = v.limit();
                            assert!(min <= l && l <= max, "{what}: limit {l} outside [{min},{max}] a {alpha} b {beta}");
                        };
                        chk("initial");
                        // enough samples (min_samples = 10) with a mix of latencies
                        for round in 0..3 {
                            for (i, l) in lats.iter().enumerate() {
                                v.record_success(*l);
                                chk(&format!("succ {round}/{i}"));
                                if i % 4 == 3 {
                                    v.record_failure();
                                    chk("fail");
                                }
                                v.record_dropped();
                            }
                        }
                        // steady equal RTTs: increases up to max
                        for _ in 0..15 {
                            v.record_success(Duration::from_millis(3));
                            chk("steady");
                        }
                        // RTT explosion: decrease
                        for _ in 0..15 {
                            v.record_success(Duration::from_secs(3000));
                            chk("explode");
                        }
                    }
                }
            }
        }
    }
}

#[test]
fn vegas_new_direct_and_enum() {
    let v = Vegas::new(usize::MAX, usize::MAX, usize::MAX, 0, 0);
    for _ in 0..20 {
        v.record_success(Duration::from_millis(1));
        assert_eq!(v.limit(), usize::MAX);
    }
    v.record_failure();
    assert_eq!(v.limit(), usize::MAX);
    let a = Algorithm::Vegas(Vegas::new(0, 0, 0, 0, 0));
    for _ in 0..20 {
        a.record_success(Duration::from_millis(1));
        assert_eq!(a.limit(), 0);
    }
    a.record_failure();
    a.record_dropped();
    assert_eq!((a.limit(), a.min_limit(), a.max_limit()), (0, 0, 0));
    let a = Algorithm::Aimd(Aimd::builder().min_limit(7).max_limit(7).initial_limit(0).build());
    a.record_failure();
    a.record_success(Duration::ZERO);
    a.record_dropped();
    assert_eq!((a.limit(), a.min_limit(), a.max_limit()), (7, 7, 7));
}

// ---------------------------------------------------------------------------
// service

#[derive(Clone, Copy, PartialEq, Debug)]
enum Beh {
    Ok,
    Err,
    PanicSync,
    PanicFut,
    PanicFutBomb,
    Never,
    Gate,
}

struct Bomb;
impl Drop for Bomb {
    fn drop(&mut self) {
        if !std::thread::panicking() {
            panic!("bomb drop");
        }
    }
}

#[derive(Clone)]
struct Inner {
    calls: Arc<AtomicUsize>,
    gate: Arc<tokio::sync::Notify>,
    ready: Arc<Mutex<Vec<i32>>>, // 0 ready, 1 pending, 2 error
}
impl Inner {
    fn new() -> Self {
        Inner { calls: Arc::new(AtomicUsize::new(0)), gate: Arc::new(tokio::sync::Notify::new()), ready: Arc::new(Mutex::new(vec![])) }
    }
}
impl Service<(Beh, u64)> for Inner {
    type Response = u64;
    type Error = String;
    type Future = BoxFuture<'static, Result<u64, String>>;
    fn poll_ready(&mut self, _cx: &mut Context<'_>) -> Poll<Result<(), String>> {
        let r = { let mut v = self.ready.lock().unwrap(); if v.is_empty() { 0 } else { v.remove(0) } };
        match r {
            0 => Poll::Ready(Ok(())),
            1 => Poll::Pending,
            _ => Poll::Ready(Err("not ready".to_string())),
        }
    }
    fn call(&mut self, (b, x): (Beh, u64)) -> Self::Future {
        self.calls.fetch_add(1, Ordering::SeqCst);
        let gate = self.gate.clone();
        match b {
            Beh::PanicSync => panic!("sync panic in call"),
            Beh::Ok => async move { Ok(x) }.boxed(),
            Beh::Err => async move { Err(format!("e{x}")) }.boxed(),
            Beh::PanicFut => async move { tokio::task::yield_now().await; panic!("future panic") }.boxed(),
            Beh::PanicFutBomb => async move { tokio::task::yield_now().await; std::panic::panic_any(Bomb) }.boxed(),
            Beh::Never => futures::future::pending().boxed(),
            Beh::Gate => async move { gate.notified().await; Ok(x) }.boxed(),
        }
    }
}

fn algs(limit: usize) -> Vec<(&'static str, Algorithm)> {
    vec![
        ("aimd", Algorithm::Aimd(Aimd::builder().initial_limit(limit).min_limit(limit).max_limit(limit).build())),
        ("vegas", Algorithm::Vegas(Vegas::builder().initial_limit(limit).min_limit(limit).max_limit(limit).build())),
    ]
}

#[tokio::test]
async fn service_inflight_every_exit_path() {
    for (name, alg) in algs(3) {
        let inner = Inner::new();
        let layer = AdaptiveLimiterLayer::new(alg);
        let mut svc = layer.layer(inner.clone());
        // ok / err
        assert_eq!(svc.ready().await.unwrap().call((Beh::Ok, 5)).await.unwrap(), 5);
        match svc.ready().await.unwrap().call((Beh::Err, 6)).await {
            Err(AdaptiveError::Service(e)) => assert_eq!(e, "e6"),
            o => panic!("{name}: {:?}", o.map_err(|_| ())),
        }
        assert_eq!(svc.in_flight(), 0);
        // synchronous panic in inner.call
        let _ = svc.ready().await.unwrap();
        let r = catch_unwind(AssertUnwindSafe(|| svc.call((Beh::PanicSync, 0))));
        assert!(r.is_err());
        assert_eq!(svc.in_flight(), 0, "{name}: sync panic leaked");
        // future panics; the caller keeps the poisoned future ALIVE
        let _ = svc.ready().await.unwrap();
        let mut f = svc.call((Beh::PanicFut, 0));
        assert_eq!(svc.in_flight(), 1);
        let mut cx = noop_cx();
        assert!(Pin::new(&mut f).poll(&mut cx).is_pending());
        let r = catch_unwind(AssertUnwindSafe(|| Pin::new(&mut f).poll(&mut cx)));
        assert!(r.is_err());
        assert_eq!(svc.in_flight(), 0, "{name}: panicked call still counted while its future is kept");
        drop(f);
        assert_eq!(svc.in_flight(), 0);
        // future panics with a payload whose drop panics
        let _ = svc.ready().await.unwrap();
        let mut f = svc.call((Beh::PanicFutBomb, 0));
        assert!(Pin::new(&mut f).poll(&mut cx).is_pending());
        let r = catch_unwind(AssertUnwindSafe(|| Pin::new(&mut f).poll(&mut cx)));
        match r { Err(p) => std::mem::forget(p), Ok(_) => panic!("expected panic") }
        assert_eq!(svc.in_flight(), 0, "{name}: bomb");
        drop(f);
        // dropped unpolled, dropped mid-flight
        let _ = svc.ready().await.unwrap();
        let f = svc.call((Beh::Never, 0));
        assert_eq!(svc.in_flight(), 1);
        drop(f);
        assert_eq!(svc.in_flight(), 0);
        let _ = svc.ready().await.unwrap();
        let mut f = svc.call((Beh::Never, 0));
        assert!(Pin::new(&mut f).poll(&mut cx).is_pending());
        drop(f);
        assert_eq!(svc.in_flight(), 0);
        // at the limit: 3 in flight, refused; one done -> admitted
        let mut fs = vec![];
        for i in 0..3 {
            let mut c = svc.clone();
            assert!(c.poll_ready(&mut cx).is_ready(), "{name}: refused at {i} in flight");
            fs.push(c.call((Beh::Gate, i)));
        }
        assert_eq!(svc.in_flight(), 3);
        let mut c2 = svc.clone();
        assert!(c2.poll_ready(&mut cx).is_pending());
        assert!(svc.poll_ready(&mut cx).is_pending());
        drop(fs.pop());
        assert!(c2.poll_ready(&mut cx).is_ready());
        fs.clear();
        assert_eq!(svc.in_flight(), 0);
        // a second service from the same layer: separate counter (observation)
        let svc2 = layer.layer(inner.clone());
        let _ = svc.ready().await.unwrap();
        let f = svc.call((Beh::Never, 0));
        eprintln!("{name}: second service from the same layer sees in_flight {} (first {})", svc2.in_flight(), svc.in_flight());
        drop(f);
    }
}

#[tokio::test]
async fn service_readiness_passthrough() {
    for (name, alg) in algs(1) {
        let inner = Inner::new();
        let mut svc = AdaptiveLimiterLayer::new(alg).layer(inner.clone());
        let mut cx = noop_cx();
        *inner.ready.lock().unwrap() = vec![1, 2, 0];
        assert!(svc.poll_ready(&mut cx).is_pending(), "{name}");
        match svc.poll_ready(&mut cx) {
            Poll::Ready(Err(AdaptiveError::Service(e))) => assert_eq!(e, "not ready"),
            _ => panic!("{name}: readiness error not surfaced"),
        }
        assert_eq!(svc.in_flight(), 0);
        assert!(matches!(svc.poll_ready(&mut cx), Poll::Ready(Ok(()))));
        assert_eq!(svc.call((Beh::Ok, 9)).await.unwrap(), 9);
        assert_eq!(inner.calls.load(Ordering::SeqCst), 1);
    }
}

// the limit changes under the feet of a parked caller: limit drops to the number in flight
#[tokio::test]
async fn limit_moves_while_in_flight() {
    let a = Aimd::builder().initial_limit(4).min_limit(1).max_limit(4).decrease_factor(0.0).build();
    let inner = Inner::new();
    let mut svc = AdaptiveLimiterLayer::new(a).layer(inner.clone());
    let mut cx = noop_cx();
    let mut fs = vec![];
    for i in 0..2 {
        let mut c = svc.clone();
        assert!(c.poll_ready(&mut cx).is_ready());
        fs.push(c.call((Beh::Gate, i)));
    }
    // a failing call brings the limit to 1 (min) while 2 are in flight
    let _ = svc.ready().await.unwrap().call((Beh::Err, 0)).await;
    assert_eq!(svc.limit(), 1);
    assert_eq!(svc.in_flight(), 2);
    assert!(svc.poll_ready(&mut cx).is_pending());
    fs.pop();
    assert!(svc.poll_ready(&mut cx).is_pending()); // 1 in flight, limit 1
    fs.pop();
    assert!(svc.poll_ready(&mut cx).is_ready());
}

#[test]
fn threads_stress_counter_returns_to_zero() {
    let rt = tokio::runtime::Builder::new_multi_thread().worker_threads(8).enable_all().build().unwrap();
    rt.block_on(async {
        for (name, alg) in [
            ("aimd", Algorithm::Aimd(Aimd::builder().initial_limit(5).min_limit(1).max_limit(8).build())),
            ("vegas", Algorithm::Vegas(Vegas::builder().initial_limit(5).min_limit(1).max_limit(8).build())),
        ] {
            let inner = Inner::new();
            let svc = AdaptiveLimiterLayer::new(alg).layer(inner.clone());
            let mut hs = vec![];
            for t in 0..64u64 {
                let mut s = svc.clone();
                hs.push(tokio::spawn(async move {
                    for i in 0..200u64 {
                        let b = match (t + i) % 5 { 0 => Beh::Ok, 1 => Beh::Err, 2 => Beh::PanicFut, 3 => Beh::Never, _ => Beh::PanicSync };
                        let s2 = match tokio::time::timeout(Duration::from_secs(20), s.ready()).await { Ok(r) => r.unwrap(), Err(_) => panic!("hang in ready") };
                        let l = s2.limit();
                        assert!((1..=8).contains(&l));
                        match b {
                            Beh::PanicSync => { let _ = catch_unwind(AssertUnwindSafe(|| s2.call((b, i)))); }
                            Beh::Never => { let f = s2.call((b, i)); let _ = tokio::time::timeout(Duration::from_micros(50), f).await; }
                            _ => { let f = s2.call((b, i)); let _ = AssertUnwindSafe(f).catch_unwind().await; }
                        }
                    }
                }));
            }
            for h in hs { h.await.unwrap(); }
            assert_eq!(svc.in_flight(), 0, "{name}");
            let l = svc.limit();
            assert!((1..=8).contains(&l));
        }
    });
}

// C20: adaptive over tower's ConcurrencyLimit and Buffer
#[tokio::test]
async fn adaptive_over_reserving_services() {
    use tower::limit::ConcurrencyLimit;
    let inner = Inner::new();
    let mut svc = AdaptiveLimiterLayer::new(Vegas::builder().build()).layer(ConcurrencyLimit::new(inner.clone(), 1));
    for i in 0..20 {
        assert_eq!(svc.ready().await.unwrap().call((Beh::Ok, i)).await.unwrap(), i);
    }
    let (b, w) = tower::buffer::Buffer::pair(inner.clone(), 2);
    tokio::spawn(w);
    let mut svc = AdaptiveLimiterLayer::new(Aimd::builder().build()).layer(b);
    for i in 0..20 {
        assert_eq!(svc.ready().await.unwrap().call((Beh::Ok, i)).await.unwrap(), i);
    }
    assert_eq!(inner.calls.load(Ordering::SeqCst), 40);
}
