// Probe e: tower-resilience-healthcheck (C18), features random + tracing + triggers
use std::collections::{HashMap, VecDeque};
use std::sync::atomic::{AtomicUsize, Ordering};
use std::sync::{Arc, Mutex};
use std::time::Duration;
use tower_resilience_core::HealthTriggerable;
use tower_resilience_healthcheck::*;

use HealthStatus::*;

#[derive(Clone, Copy, Debug, PartialEq)]
enum R {
    S(HealthStatus),
    Slow,  // answers Healthy, but later than the timeout
    Panic, // the checker panics
}

#[derive(Clone, Default)]
struct Script(Arc<Mutex<HashMap<String, VecDeque<R>>>>);
impl Script {
    fn set(&self, name: &str, v: &[R]) {
        self.0.lock().unwrap().insert(name.to_string(), v.iter().copied().collect());
    }
}
struct Chk {
    script: Script,
    started: Arc<AtomicUsize>,
    default: R,
    slow_by: Duration,
}
impl HealthChecker<String> for Chk {
    async fn check(&self, r: &String) -> HealthStatus {
        self.started.fetch_add(1, Ordering::SeqCst);
        let x = self.script.0.lock().unwrap().get_mut(r).and_then(|q| q.pop_front()).unwrap_or(self.default);
        match x {
            R::S(s) => s,
            R::Slow => {
                tokio::time::sleep(self.slow_by).await;
                Healthy
            }
            R::Panic => panic!("checker panics"),
        }
    }
}

/// the property's rule, nothing else: (status, run of failures, run of non-failing)
fn reference(f: u32, s: u32, results: &[R]) -> HealthStatus {
    let mut st = Unknown;
    let (mut fails, mut succ) = (0u64, 0u64);
    for r in results {
        let eff = match r { R::S(x) => *x, R::Slow => Unhealthy, R::Panic => continue };
        match eff {
            Unknown => {}
            Unhealthy => { fails += 1; succ = 0; if fails >= f as u64 { st = Unhealthy; } }
            Degraded => { succ += 1; fails = 0; st = Degraded; }
            Healthy => { succ += 1; fails = 0; if succ >= s as u64 { st = Healthy; } }
        }
    }
    st
}

fn lcg(x: &mut u64) -> u64 {
    *x = x.wrapping_mul(6364136223846793005).wrapping_add(1442695040888963407);
    *x >> 33
}

const IV: Duration = Duration::from_millis(100);
const TO: Duration = Duration::from_millis(50);

fn base(script: &Script, started: &Arc<AtomicUsize>) -> HealthCheckWrapperBuilder<String, Chk> {
    HealthCheckWrapper::builder()
        .with_checker(Chk { script: script.clone(), started: started.clone(), default: R::S(Unknown), slow_by: Duration::from_millis(60) })
        .with_interval(IV)
        .with_initial_delay(Duration::ZERO)
        .with_timeout(TO)
}

#[tokio::test(start_paused = true)]
async fn thresholds_random_histories() {
    let mut seed = 12345u64;
    for (f, s) in [(1u32, 1u32), (1, 3), (3, 1), (2, 2), (4, 3), (u32::MAX, 1), (1, u32::MAX), (u32::MAX, u32::MAX)] {
        for _rep in 0..6 {
            let script = Script::default();
            let started = Arc::new(AtomicUsize::new(0));
            let n = 3;
            let mut hist: Vec<Vec<R>> = vec![];
            for i in 0..n {
                let v: Vec<R> = (0..40)
                    .map(|_| match lcg(&mut seed) % 6 { 0 | 1 => R::S(Healthy), 2 => R::S(Degraded), 3 => R::S(Unhealthy), 4 => R::S(Unknown), _ => R::Slow })
                    .collect();
                script.set(&format!("r{i}"), &v);
                hist.push(v);
            }
            let mut b = base(&script, &started).with_failure_threshold(f).with_success_threshold(s);
            for i in 0..n { b = b.with_context(format!("r{i}"), format!("r{i}")); }
            let w = b.build();
            w.start().await;
            tokio::time::sleep(Duration::from_millis(75)).await;
            for k in 1..=40usize {
                for i in 0..n {
                    let want = reference(f, s, &hist[i][..k]);
                    let got = w.get_status(&format!("r{i}")).await.unwrap();
                    assert_eq!(got, want, "f {f} s {s} resource {i} after {k} checks {:?}", &hist[i][..k]);
                }
                // selection soundness at every step
                let st: Vec<_> = w.get_all_statuses().await;
                for _ in 0..4 {
                    match w.get_healthy().await { Some(r) => assert_eq!(st.iter().find(|x| x.0 == r).unwrap().1, Healthy), None => assert!(st.iter().all(|x| x.1 != Healthy)) }
                    match w.get_usable().await { Some(r) => assert!(st.iter().find(|x| x.0 == r).unwrap().1.is_usable()), None => assert!(st.iter().all(|x| !x.1.is_usable())) }
                }
                tokio::time::sleep(IV).await;
            }
            w.stop().await;
        }
    }
}

// boundary: exactly threshold-1 / threshold results, thresholds 1 and large
#[tokio::test(start_paused = true)]
async fn exact_boundaries() {
    for t in [1u32, 2, 7, 300] {
        let script = Script::default();
        let started = Arc::new(AtomicUsize::new(0));
        let mut v = vec![R::S(Healthy); t as usize];          // becomes healthy exactly at t
        v.extend(vec![R::S(Unhealthy); t as usize]);           // unhealthy exactly at 2t
        v.extend(vec![R::Slow; 1]);
        v.extend(vec![R::S(Degraded); 1]);                     // degraded at once
        v.extend(vec![R::S(Unknown); 3]);
        v.extend(vec![R::S(Healthy); t as usize]);
        script.set("a", &v);
        let w = base(&script, &started).with_failure_threshold(t).with_success_threshold(t).with_context("a".to_string(), "a").build();
        w.start().await;
        tokio::time::sleep(Duration::from_millis(75)).await;
        for k in 1..=v.len() {
            assert_eq!(w.get_status("a").await.unwrap(), reference(t, t, &v[..k]), "t {t} k {k}");
            tokio::time::sleep(IV).await;
        }
    }
}

// a timed-out check with a panicking on_check_failed callback; a panicking on_health_change; panicking trigger
struct Trig(Arc<AtomicUsize>, bool);
impl HealthTriggerable for Trig {
    fn trigger_unhealthy(&self) { if self.1 { panic!("trigger") } self.0.fetch_add(1, Ordering::SeqCst); }
    fn trigger_healthy(&self) { if self.1 { panic!("trigger") } self.0.fetch_add(100, Ordering::SeqCst); }
    fn trigger_degraded(&self) { if self.1 { panic!("trigger") } self.0.fetch_add(10000, Ordering::SeqCst); }
}

#[tokio::test(start_paused = true)]
async fn panicking_callbacks() {
    for (cf_panics, hc_panics, trig_panics) in [(false, false, false), (true, false, false), (false, true, false), (false, false, true)] {
        let script = Script::default();
        let started = Arc::new(AtomicUsize::new(0));
        let v = [R::S(Healthy), R::Slow, R::Slow, R::Slow, R::S(Healthy), R::S(Degraded), R::S(Unhealthy), R::S(Unhealthy)];
        script.set("a", &v);
        let tcount = Arc::new(AtomicUsize::new(0));
        let failed = Arc::new(AtomicUsize::new(0));
        let changes = Arc::new(Mutex::new(vec![]));
        let (failed2, changes2) = (failed.clone(), changes.clone());
        let cfg = HealthCheckConfig::builder()
            .interval(IV).initial_delay(Duration::ZERO).timeout(TO)
            .failure_threshold(2).success_threshold(1)
            .on_check_failed(move |_n, _e| { failed2.fetch_add(1, Ordering::SeqCst); if cf_panics { panic!("on_check_failed") } })
            .on_health_change(move |_n, a, b| { changes2.lock().unwrap().push((a, b)); if hc_panics { panic!("on_health_change") } })
            .with_trigger(Arc::new(Trig(tcount.clone(), trig_panics)))
            .with_trigger(Arc::new(Trig(tcount.clone(), false)))
            .build();
        let w = HealthCheckWrapper::builder()
            .with_checker(Chk { script: script.clone(), started: started.clone(), default: R::S(Unknown), slow_by: Duration::from_millis(60) })
            .with_config(cfg)
            .with_context("a".to_string(), "a").build();
        w.start().await;
        tokio::time::sleep(Duration::from_millis(75)).await;
        let mut got = vec![];
        for _k in 1..=v.len() {
            got.push(w.get_status("a").await.unwrap());
            tokio::time::sleep(IV).await;
        }
        let want: Vec<_> = (1..=v.len()).map(|k| reference(2, 1, &v[..k])).collect();
        let d = w.get_health_details().await;
        eprintln!("on_check_failed panics {cf_panics}, on_health_change panics {hc_panics}, trigger panics {trig_panics}:\n   got  {got:?}\n   want {want:?}\n   check_failed calls {} changes {:?} trigger sum {} details {:?}",
            failed.load(Ordering::SeqCst), changes.lock().unwrap(), tcount.load(Ordering::SeqCst), d);
        if got != want {
            eprintln!("   ^^^ DEVIATION: published status differs from the rule");
        }
    }
}

#[tokio::test(start_paused = true)]
async fn panicking_checker_is_ignored_or_failed() {
    let script = Script::default();
    let started = Arc::new(AtomicUsize::new(0));
    let v = [R::S(Healthy), R::Panic, R::Panic, R::Panic, R::S(Healthy)];
    script.set("a", &v);
    script.set("b", &[R::S(Healthy); 5]);
    let w = base(&script, &started).with_failure_threshold(2).with_context("a".to_string(), "a").with_context("b".to_string(), "b").build();
    w.start().await;
    tokio::time::sleep(Duration::from_millis(75)).await;
    let mut got = vec![];
    for _ in 0..5 {
        got.push((w.get_status("a").await.unwrap(), w.get_status("b").await.unwrap()));
        tokio::time::sleep(IV).await;
    }
    eprintln!("panicking checker: {got:?}; started {}", started.load(Ordering::SeqCst));
    assert!(got.iter().all(|x| x.1 == Healthy), "a panicking check of a must not disturb b");
    assert_eq!(started.load(Ordering::SeqCst), 12, "checks keep running");
}

// extreme durations
#[tokio::test(start_paused = true)]
async fn extreme_durations() {
    // timeout ZERO with an immediate checker; timeout MAX with a slow one
    for (to, slow, want) in [(Duration::ZERO, Duration::ZERO, Healthy), (Duration::MAX, Duration::from_millis(60), Healthy), (Duration::from_nanos(1), Duration::from_millis(2), Unhealthy), (Duration::ZERO, Duration::from_nanos(1), Unhealthy)] {
        let script = Script::default();
        let started = Arc::new(AtomicUsize::new(0));
        let w = HealthCheckWrapper::builder()
            .with_checker(Chk { script: script.clone(), started: started.clone(), default: if slow.is_zero() { R::S(Healthy) } else { R::Slow }, slow_by: slow })
            .with_interval(IV).with_initial_delay(Duration::ZERO).with_timeout(to).with_failure_threshold(1)
            .with_context("a".to_string(), "a").build();
        w.start().await;
        tokio::time::sleep(Duration::from_millis(90)).await;
        assert_eq!(w.get_status("a").await.unwrap(), want, "timeout {to:?} slow {slow:?}");
    }
    // interval 1 ns / MAX, initial delay MAX
    for (iv, delay) in [(Duration::from_micros(1), Duration::ZERO), (Duration::MAX, Duration::ZERO), (Duration::from_secs(1), Duration::MAX), (Duration::MAX, Duration::from_millis(3))] {
        let script = Script::default();
        let started = Arc::new(AtomicUsize::new(0));
        let w = HealthCheckWrapper::builder()
            .with_checker(Chk { script: script.clone(), started: started.clone(), default: R::S(Healthy), slow_by: Duration::ZERO })
            .with_interval(iv).with_initial_delay(delay).with_timeout(TO).with_success_threshold(2)
            .with_context("a".to_string(), "a").build();
        w.start().await;
        tokio::time::sleep(Duration::from_millis(20)).await;
        let st = w.get_status("a").await.unwrap();
        let n = started.load(Ordering::SeqCst);
        eprintln!("interval {iv:?} delay {delay:?}: status {st:?}, checks started {n}");
        match (iv, delay) {
            (_, d) if d == Duration::MAX => assert_eq!((st, n), (Unknown, 0)),
            (i, _) if i == Duration::MAX => assert_eq!((st, n), (Unknown, 1)),
            _ => assert_eq!(st, Healthy),
        }
        w.stop().await;
    }
}

#[tokio::test(start_paused = true)]
async fn interval_zero() {
    let script = Script::default();
    let started = Arc::new(AtomicUsize::new(0));
    let w = HealthCheckWrapper::builder()
        .with_checker(Chk { script: script.clone(), started: started.clone(), default: R::S(Healthy), slow_by: Duration::ZERO })
        .with_interval(Duration::ZERO).with_initial_delay(Duration::ZERO)
        .with_context("a".to_string(), "a").build();
    w.start().await;
    tokio::time::sleep(Duration::from_secs(20)).await;
    eprintln!("interval ZERO: status {:?}, checks started {}", w.get_status("a").await.unwrap(), started.load(Ordering::SeqCst));
}

// selection
#[tokio::test(start_paused = true)]
async fn selection_strategies() {
    use SelectionStrategy::*;
    let strategies: Vec<(&str, SelectionStrategy)> = vec![
        ("first", FirstAvailable), ("random", Random), ("rr", RoundRobin), ("prefer", PreferHealthy),
        ("custom-last", Custom(Arc::new(|s: &[HealthStatus]| s.len().checked_sub(1)))),
        ("custom-oob", Custom(Arc::new(|s: &[HealthStatus]| Some(s.len())))),
        ("custom-max", Custom(Arc::new(|_s: &[HealthStatus]| Some(usize::MAX)))),
        ("custom-none", Custom(Arc::new(|_s: &[HealthStatus]| None))),
    ];
    for (name, strat) in strategies {
        for n in [0usize, 1, 2, 5, 33] {
            let script = Script::default();
            let started = Arc::new(AtomicUsize::new(0));
            // resource i answers: i%4 = 0 healthy, 1 degraded, 2 unhealthy, 3 unknown; then everything flips
            let mut b = base(&script, &started).with_failure_threshold(1).with_success_threshold(1).with_selection_strategy(strat.clone());
            for i in 0..n {
                let first = match i % 4 { 0 => Healthy, 1 => Degraded, 2 => Unhealthy, _ => Unknown };
                let second = match i % 4 { 0 => Unhealthy, 1 => Healthy, 2 => Degraded, _ => Healthy };
                script.set(&format!("r{i}"), &[R::S(first), R::S(second)]);
                b = b.with_context(format!("r{i}"), format!("r{i}"));
            }
            let w = b.build();
            // before start: nothing qualifies
            assert_eq!(w.get_healthy().await, None);
            assert_eq!(w.get_usable().await, None);
            w.start().await;
            tokio::time::sleep(Duration::from_millis(75)).await;
            for round in 0..2 {
                let st: HashMap<String, HealthStatus> = w.get_all_statuses().await.into_iter().collect();
                let nh = st.values().filter(|s| **s == Healthy).count();
                let nu = st.values().filter(|s| s.is_usable()).count();
                let mut ch: HashMap<String, usize> = HashMap::new();
                let mut cu: HashMap<String, usize> = HashMap::new();
                let k = 6;
                for _ in 0..k * nh.max(1) {
                    match w.get_healthy().await { Some(r) => { assert_eq!(st[&r], Healthy, "{name}"); *ch.entry(r).or_default() += 1; } None => assert!(nh == 0 || name.starts_with("custom-"), "{name} n {n}: None although {nh} healthy") }
                    // interleave the other accessor an odd number of times
                    for _ in 0..3 { if let Some(r) = w.get_usable().await { assert!(st[&r].is_usable(), "{name}"); } }
                }
                for _ in 0..k * nu.max(1) {
                    match w.get_usable().await { Some(r) => { assert!(st[&r].is_usable(), "{name}"); *cu.entry(r).or_default() += 1; } None => assert!(nu == 0 || name.starts_with("custom-"), "{name} n {n}: None although {nu} usable") }
                }
                if name == "rr" {
                    assert!(ch.len() == nh && ch.values().all(|c| *c == k), "rr healthy uneven n {n} round {round}: {ch:?}");
                    assert!(cu.len() == nu && cu.values().all(|c| *c == k), "rr usable uneven n {n} round {round}: {cu:?}");
                }
                if name == "custom-last" && nh > 0 { assert_eq!(ch.len(), 1); }
                tokio::time::sleep(IV).await;
            }
        }
    }
}

// start twice, stop in the middle of a slow check, get_* while nothing runs
#[tokio::test(start_paused = true)]
async fn start_stop_odd_moments() {
    let script = Script::default();
    let started = Arc::new(AtomicUsize::new(0));
    script.set("a", &[R::Slow, R::S(Healthy), R::S(Healthy)]);
    let w = HealthCheckWrapper::builder()
        .with_checker(Chk { script: script.clone(), started: started.clone(), default: R::S(Unknown), slow_by: Duration::from_millis(30) })
        .with_interval(IV).with_initial_delay(Duration::ZERO).with_timeout(TO).with_failure_threshold(1)
        .with_context("a".to_string(), "a").build();
    w.start().await;
    w.start().await;
    tokio::time::sleep(Duration::from_millis(10)).await;
    let n1 = started.load(Ordering::SeqCst);
    w.stop().await; // a slow (30 ms, within the timeout: Healthy) check is in flight
    tokio::time::sleep(Duration::from_millis(500)).await;
    eprintln!("after stop: status {:?}, checks started before stop {n1}, now {}", w.get_status("a").await, started.load(Ordering::SeqCst));
    w.stop().await;
    w.start().await;
    tokio::time::sleep(Duration::from_millis(175)).await;
    eprintln!("restarted: status {:?}, checks {}", w.get_status("a").await, started.load(Ordering::SeqCst));
    assert_eq!(w.get_status("nope").await, None);
    drop(w);
}

// a custom selector that panics: the caller sees the panic, nothing is poisoned, later calls work
#[tokio::test(start_paused = true)]
async fn panicking_selector() {
    use futures::FutureExt;
    let script = Script::default();
    let started = Arc::new(AtomicUsize::new(0));
    let n = Arc::new(AtomicUsize::new(0));
    let n2 = n.clone();
    let strat = SelectionStrategy::Custom(Arc::new(move |s: &[HealthStatus]| {
        if n2.fetch_add(1, Ordering::SeqCst) % 2 == 0 { std::panic::panic_any(7u8) } else { Some(s.len() - 1) }
    }));
    let w = HealthCheckWrapper::builder()
        .with_checker(Chk { script: script.clone(), started: started.clone(), default: R::S(Healthy), slow_by: Duration::ZERO })
        .with_interval(IV).with_initial_delay(Duration::ZERO).with_timeout(TO)
        .with_selection_strategy(strat)
        .with_context("a".to_string(), "a").with_context("b".to_string(), "b").build();
    w.start().await;
    tokio::time::sleep(Duration::from_millis(75)).await;
    for _ in 0..4 {
        assert!(std::panic::AssertUnwindSafe(w.get_healthy()).catch_unwind().await.is_err());
        assert_eq!(w.get_healthy().await, Some("b".to_string()));
        assert!(std::panic::AssertUnwindSafe(w.get_usable()).catch_unwind().await.is_err());
        assert_eq!(w.get_usable().await, Some("b".to_string()));
        tokio::time::sleep(IV).await;
        assert_eq!(w.get_status("a").await, Some(Healthy));
    }
}
