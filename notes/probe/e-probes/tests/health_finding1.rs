// Finding 1 (C18): a panicking `on_check_failed` callback (crate feature `tracing`) makes every timed-out
// check vanish: it is neither counted as a failure nor published. Real clock AND paused clock.
use std::sync::atomic::{AtomicUsize, Ordering};
use std::sync::Arc;
use std::time::Duration;
use tower_resilience_healthcheck::*;

async fn run(callback_panics: bool) -> (HealthStatus, u64, usize) {
    let timeouts_seen = Arc::new(AtomicUsize::new(0));
    let t2 = timeouts_seen.clone();
    let cfg = HealthCheckConfig::builder()
        .interval(Duration::from_millis(20))
        .initial_delay(Duration::ZERO)
        .timeout(Duration::from_millis(5))
        .failure_threshold(2)
        .success_threshold(1)
        .on_check_failed(move |_name, _err| {
            t2.fetch_add(1, Ordering::SeqCst);
            if callback_panics { panic!("observer bug") }
        })
        .build();
    let n = Arc::new(AtomicUsize::new(0));
    let n2 = n.clone();
    // first check answers Healthy at once, every later check hangs far beyond the timeout
    let checker = move |_r: &String| {
        let k = n2.fetch_add(1, Ordering::SeqCst);
        async move { if k > 0 { tokio::time::sleep(Duration::from_secs(3600)).await; } HealthStatus::Healthy }
    };
    let w = HealthCheckWrapper::builder().with_context("db".to_string(), "db").with_checker(checker).with_config(cfg).build();
    w.start().await;
    tokio::time::sleep(Duration::from_millis(400)).await; // ~20 checks, all but the first time out
    let d = &w.get_health_details().await[0];
    let out = (d.status, d.consecutive_failures, timeouts_seen.load(Ordering::SeqCst));
    assert_eq!(w.get_healthy().await.is_some(), d.status == HealthStatus::Healthy);
    w.stop().await;
    out
}

#[tokio::test]
async fn real_clock() {
    let quiet = run(false).await;
    let noisy = run(true).await;
    eprintln!("real clock   : well-behaved callback -> {quiet:?}; panicking callback -> {noisy:?}");
    assert_eq!(quiet.0, HealthStatus::Unhealthy);
    assert_eq!(noisy.0, HealthStatus::Unhealthy, "timed-out checks were not counted: status still {:?} after {} timeouts", noisy.0, noisy.2);
}

#[tokio::test(start_paused = true)]
async fn paused_clock() {
    let quiet = run(false).await;
    let noisy = run(true).await;
    eprintln!("paused clock : well-behaved callback -> {quiet:?}; panicking callback -> {noisy:?}");
    assert_eq!(quiet.0, HealthStatus::Unhealthy);
    assert_eq!(noisy.0, HealthStatus::Unhealthy, "timed-out checks were not counted: status still {:?} after {} timeouts", noisy.0, noisy.2);
}
