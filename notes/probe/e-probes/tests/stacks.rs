// Probe e: the composition guide's stacks (crates/tower-resilience/src/composition.rs, `stacks` and `ordering`)
// built with static types over (a) a strict contract-checking service, (b) tower ConcurrencyLimit(1) around it,
// (c) tower Buffer around it. C20: one inner call per request, request/response/error unchanged,
// readiness honoured, readiness errors surface, panicking listeners change nothing.
use futures::future::{BoxFuture, FutureExt};
use std::fmt::Debug;
use std::sync::atomic::{AtomicUsize, Ordering};
use std::sync::{Arc, Mutex};
use std::task::{Context, Poll};
use std::time::Duration;
use tower::limit::ConcurrencyLimit;
use tower::{Layer, Service, ServiceExt};
use tower_resilience_adaptive::{AdaptiveLimiterLayer, Aimd, Vegas};
use tower_resilience_bulkhead::BulkheadLayer;
use tower_resilience_cache::CacheLayer;
use tower_resilience_chaos::ChaosLayer;
use tower_resilience_circuitbreaker::CircuitBreakerLayer;
use tower_resilience_coalesce::CoalesceLayer;
use tower_resilience_executor::ExecutorLayer;
use tower_resilience_fallback::FallbackLayer;
use tower_resilience_hedge::HedgeLayer;
use tower_resilience_ratelimiter::RateLimiterLayer;
use tower_resilience_retry::RetryLayer;
use tower_resilience_timelimiter::TimeLimiterLayer;

#[derive(Debug, Clone, PartialEq)]
struct E(u64);
impl std::fmt::Display for E {
    fn fmt(&self, f: &mut std::fmt::Formatter<'_>) -> std::fmt::Result { write!(f, "E({})", self.0) }
}
impl std::error::Error for E {}

struct Bomb;
impl Drop for Bomb {
    fn drop(&mut self) { if !std::thread::panicking() { panic!("bomb drop"); } }
}
fn boom(style: usize) {
    match style { 0 => {}, 1 => panic!("listener"), _ => std::panic::panic_any(Bomb) }
}

#[derive(Default)]
struct Shared {
    calls: Mutex<Vec<u64>>,
    violations: AtomicUsize,
    readiness: Mutex<Vec<i32>>, // 1 pending (wakes), 2 error, else ready
    fail_odd: std::sync::atomic::AtomicBool,
    slow_ms: std::sync::atomic::AtomicU64,
}
struct Strict { sh: Arc<Shared>, ready: bool }
impl Clone for Strict {
    fn clone(&self) -> Self { Strict { sh: self.sh.clone(), ready: false } }
}
impl Service<u64> for Strict {
    type Response = u64;
    type Error = E;
    type Future = BoxFuture<'static, Result<u64, E>>;
    fn poll_ready(&mut self, cx: &mut Context<'_>) -> Poll<Result<(), E>> {
        let r = { let mut v = self.sh.readiness.lock().unwrap(); if v.is_empty() { 0 } else { v.remove(0) } };
        match r {
            1 => { cx.waker().wake_by_ref(); Poll::Pending }
            2 => Poll::Ready(Err(E(999))),
            _ => { self.ready = true; Poll::Ready(Ok(())) }
        }
    }
    fn call(&mut self, x: u64) -> Self::Future {
        if !self.ready { self.sh.violations.fetch_add(1, Ordering::SeqCst); }
        self.ready = false;
        self.sh.calls.lock().unwrap().push(x);
        let fail = self.sh.fail_odd.load(Ordering::SeqCst) && x % 2 == 1;
        let slow = self.sh.slow_ms.load(Ordering::SeqCst);
        async move {
            if slow > 0 { tokio::time::sleep(Duration::from_millis(slow)).await; } else { tokio::task::yield_now().await; }
            if fail { Err(E(x)) } else { Ok(2 * x + 1) }
        }.boxed()
    }
}

#[derive(Clone, Copy, PartialEq, Debug)]
struct Opt { errors: bool, readiness_err: bool, multi_call: bool }

async fn battery<S>(name: &str, bottom: &str, mut svc: S, sh: Arc<Shared>, o: Opt)
where
    S: Service<u64, Response = u64> + Clone + Send + 'static,
    S::Error: Debug + Send,
    S::Future: Send,
{
    let tag = format!("{name} over {bottom}");
    let to = Duration::from_secs(3600);
    let count = |x: u64| sh.calls.lock().unwrap().iter().filter(|c| **c == x).count();
    // 1. ok outcomes
    for x in (1000..1030u64).map(|x| x * 2) {
        let r = tokio::time::timeout(to, async { svc.ready().await.map_err(|e| format!("{e:?}"))?.call(x).await.map_err(|e| format!("{e:?}")) }).await;
        assert_eq!(r, Ok(Ok(2 * x + 1)), "{tag}: ok request {x}");
        if !o.multi_call { assert_eq!(count(x), 1, "{tag}: inner calls for {x}"); } else { assert!(count(x) >= 1); }
    }
    // 2. error outcomes (non-triggering predicate variants only)
    if o.errors {
        sh.fail_odd.store(true, Ordering::SeqCst);
        for x in 500_001..500_013u64 {
            let r = tokio::time::timeout(to, async { svc.ready().await.map_err(|e| format!("{e:?}"))?.call(x).await.map_err(|e| format!("{e:?}")) }).await.expect("hang");
            if x % 2 == 1 {
                let e = r.expect_err("error expected");
                let stripped = e.replace("Inner(", "").replace("Service(", "").replace(')', "");
                assert_eq!(stripped, format!("E({x}"), "{tag}: error for {x} came back as {e}");
            } else {
                assert_eq!(r, Ok(2 * x + 1), "{tag}");
            }
            assert_eq!(count(x), 1, "{tag}: inner calls for {x}");
        }
        sh.fail_odd.store(false, Ordering::SeqCst);
    }
    // 3. pending readiness, then a readiness error
    *sh.readiness.lock().unwrap() = vec![1, 1, 1];
    let r = tokio::time::timeout(to, async { svc.ready().await.map_err(|e| format!("{e:?}"))?.call(3000).await.map_err(|e| format!("{e:?}")) }).await;
    assert_eq!(r, Ok(Ok(6001)), "{tag}: after pending readiness");
    if o.readiness_err {
        *sh.readiness.lock().unwrap() = vec![2];
        let r = tokio::time::timeout(to, svc.ready()).await.expect("hang").map(|_| ()).map_err(|e| format!("{e:?}"));
        let e = r.expect_err(&format!("{tag}: readiness error swallowed"));
        assert!(e.contains("E(999)"), "{tag}: readiness error relabelled: {e}");
        sh.readiness.lock().unwrap().clear();
        // the stack is usable afterwards
        let r = tokio::time::timeout(to, async { svc.ready().await.map_err(|e| format!("{e:?}"))?.call(3002).await.map_err(|e| format!("{e:?}")) }).await;
        assert_eq!(r, Ok(Ok(6005)), "{tag}: after a readiness error");
    }
    // 4. clones used concurrently, a clone polled ready and dropped, a future dropped unpolled
    {
        let mut c = svc.clone();
        let _ = tokio::time::timeout(to, c.ready()).await.expect("hang");
        drop(c);
        let mut c = svc.clone();
        let _ = tokio::time::timeout(to, c.ready()).await.expect("hang");
        drop(c.call(3004));
    }
    let mut hs = vec![];
    for t in 0..6u64 {
        let mut c = svc.clone();
        let tag = tag.clone();
        hs.push(tokio::spawn(async move {
            for i in 0..8u64 {
                let x = 10_000 + 2 * (t * 100 + i);
                let r = tokio::time::timeout(to, async { c.ready().await.map_err(|e| format!("{e:?}"))?.call(x).await.map_err(|e| format!("{e:?}")) }).await;
                assert_eq!(r, Ok(Ok(2 * x + 1)), "{tag}: concurrent request {x}");
            }
        }));
    }
    for h in hs { h.await.unwrap(); }
    if !o.multi_call {
        for t in 0..6u64 { for i in 0..8u64 { let x = 10_000 + 2 * (t * 100 + i); assert_eq!(count(x), 1, "{tag}: concurrent inner calls for {x}"); } }
    }
    assert_eq!(sh.violations.load(Ordering::SeqCst), 0, "{tag}: Tower readiness contract violated");
}

macro_rules! run_stack {
    ($name:expr, $o:expr, |$b:ident| $build:expr) => {{
        {
            let sh = Arc::new(Shared::default());
            let $b = Strict { sh: sh.clone(), ready: false };
            battery($name, "strict", $build, sh, $o).await;
        }
        {
            let sh = Arc::new(Shared::default());
            let $b = ConcurrencyLimit::new(Strict { sh: sh.clone(), ready: false }, 1);
            battery($name, "ConcurrencyLimit(1)", $build, sh, $o).await;
        }
        {
            let sh = Arc::new(Shared::default());
            let (buf, worker) = tower::buffer::Buffer::pair(Strict { sh: sh.clone(), ready: false }.map_err(|e: E| e), 1);
            tokio::spawn(worker);
            let $b = buf.map_err(|e: tower::BoxError| E(if e.to_string().contains("999") { 999 } else { e.downcast_ref::<E>().map(|x| x.0).unwrap_or(77) }));
            // Buffer turns a readiness error of its service into a permanent failure: not driven there
            battery($name, "Buffer(1)", $build, sh, Opt { readiness_err: false, ..$o }).await;
        }
    }};
}

// Every layer is followed by a map_err that unwraps the layer's pass-through variant and turns any error
// the layer made up itself into E(900_000 + code): the guide's stacks need one (Clone) error type to compose.
trait Svc: Service<u64, Response = u64, Error = E, Future = <Self as Svc>::Fut> + Clone + Send + 'static { type Fut: std::future::Future<Output = Result<u64, E>> + Send + 'static; }
impl<T> Svc for T where T: Service<u64, Response = u64, Error = E> + Clone + Send + 'static, T::Future: Send + 'static { type Fut = T::Future; }

fn secs(s: u64) -> Duration { Duration::from_secs(s) }
fn ms(s: u64) -> Duration { Duration::from_millis(s) }

fn tl<S: Svc>(d: Duration, style: usize, s: S) -> impl Svc {
    use tower_resilience_timelimiter::TimeLimiterError as T;
    TimeLimiterLayer::builder().timeout_duration(d)
        .on_success(move |_| boom(style)).on_error(move |_| boom(style)).on_timeout(move || boom(style)).build()
        .layer(s).map_err(|e| match e { T::Inner(x) => x, T::Timeout => E(900_001) })
}
fn retry<S: Svc>(b: tower_resilience_retry::RetryConfigBuilder<u64, E>, style: usize, s: S) -> impl Svc {
    b.retry_on(|_| false).on_retry(move |_, _| boom(style)).on_success(move |_| boom(style)).on_error(move |_| boom(style)).on_ignored_error(move || boom(style)).build().layer(s)
}
fn cb<S: Svc>(b: tower_resilience_circuitbreaker::CircuitBreakerConfigBuilder, style: usize, s: S) -> impl Svc {
    use tower_resilience_circuitbreaker::CircuitBreakerError as C;
    b.minimum_number_of_calls(1000).on_call_permitted(move |_| boom(style)).on_success(move |_| boom(style)).on_failure(move |_| boom(style)).on_state_transition(move |_, _| boom(style)).build()
        .layer(s).map_err(|e| match e { C::Inner(x) => x, C::OpenCircuit => E(900_002) })
}
fn bulkhead<S: Svc>(n: usize, style: usize, s: S) -> impl Svc {
    use tower_resilience_bulkhead::BulkheadServiceError as B;
    BulkheadLayer::builder().max_concurrent_calls(n).on_call_permitted(move |_| boom(style)).on_call_finished(move |_| boom(style)).on_call_failed(move |_| boom(style)).on_call_rejected(move |_| boom(style)).build()
        .layer(s).map_err(|e| match e { B::Inner(x) => x, B::Bulkhead(_) => E(900_003) })
}
fn hedge<S: Svc>(b: tower_resilience_hedge::HedgeConfigBuilder, style: usize, s: S) -> impl Svc {
    use tower_resilience_hedge::HedgeError as H;
    b.on_event(tower_resilience_core::FnListener::new(move |_: &tower_resilience_hedge::HedgeEvent| boom(style))).build()
        .layer(s).map_err(|e| match e { H::Inner(x) => x, H::AllAttemptsFailed(_) => E(900_004) })
}
fn fallback<S: Svc>(style: usize, s: S) -> impl Svc {
    use tower_resilience_fallback::FallbackError as F;
    FallbackLayer::<u64, u64, E>::builder().value(424242).handle(|_e: &E| false).on_event(move |_: &tower_resilience_fallback::FallbackEvent| boom(style)).build()
        .layer(s).map_err(|e| match e { F::Inner(x) => x, F::FallbackFailed(_) => E(900_005) })
}
fn adaptive<S: Svc, A: tower_resilience_adaptive::ConcurrencyAlgorithm + 'static>(a: A, s: S) -> impl Svc {
    use tower_resilience_adaptive::AdaptiveError as A_;
    AdaptiveLimiterLayer::new(a).layer(s).map_err(|e| match e { A_::Service(x) => x, A_::LimitReached => E(900_006) })
}
fn coalesce<S: Svc>(s: S) -> impl Svc {
    use tower_resilience_coalesce::CoalesceError as C;
    CoalesceLayer::new(|r: &u64| *r).layer(s).map_err(|e| match e { C::Service(x) => x, _ => E(900_007) })
}
fn cache<S: Svc>(style: usize, s: S) -> impl Svc {
    use tower_resilience_cache::CacheError as C;
    CacheLayer::<u64, u64>::builder().max_size(100_000).key_extractor(|r: &u64| *r).on_hit(move || boom(style)).on_miss(move || boom(style)).on_eviction(move || boom(style)).build()
        .layer(s).map_err(|e| match e { C::Inner(x) => x })
}
fn ratelimit<S: Svc>(style: usize, s: S) -> impl Svc {
    use tower_resilience_ratelimiter::RateLimiterServiceError as R;
    RateLimiterLayer::builder().limit_for_period(1_000_000).refresh_period(secs(1)).timeout_duration(Duration::ZERO)
        .on_permit_acquired(move |_| boom(style)).on_permit_rejected(move |_| boom(style)).on_permits_refreshed(move |_| boom(style)).build()
        .layer(s).map_err(|e| match e { R::Inner(x) => x, R::RateLimited => E(900_008) })
}
fn executor<S: Svc>(s: S) -> impl Svc {
    use tower_resilience_executor::ExecutorError as X;
    ExecutorLayer::new(tokio::runtime::Handle::current()).layer(s).map_err(|e| match e { X::Service(x) => x, X::TaskCancelled => E(900_009) })
}
fn chaos<S: Svc>(style: usize, s: S) -> impl Svc {
    ChaosLayer::builder().name("z").on_passed_through(move || boom(style)).on_error_injected(move || boom(style)).on_latency_injected(move |_| boom(style)).build().layer(s)
}

const ALL: Opt = Opt { errors: true, readiness_err: true, multi_call: false };
const OKONLY: Opt = Opt { errors: false, readiness_err: false, multi_call: false };
type RB = RetryLayer<u64, E>;
type CB = CircuitBreakerLayer;

#[tokio::test(start_paused = true)]
async fn guide_stacks_paused_clock() { run_all().await }

#[tokio::test(flavor = "multi_thread", worker_threads = 4)]
async fn guide_stacks_real_clock_threads() { run_all().await }

async fn run_all() {
    for style in 0..3usize {
        let st = style;
        run_stack!("api-minimal", ALL, |b| tl(secs(10), st, retry(RB::builder().max_attempts(3), st, b)));
        run_stack!("api-standard", ALL, |b| tl(secs(30), st, retry(RB::builder().max_attempts(3).exponential_backoff(ms(100)), st,
            cb(CB::builder().failure_rate_threshold(0.5), st, tl(secs(10), st, b)))));
        run_stack!("api-full", ALL, |b| fallback(st, tl(secs(30), st, retry(RB::builder().max_attempts(3).exponential_backoff(ms(100)), st,
            cb(CB::builder().failure_rate_threshold(0.5).wait_duration_in_open(secs(30)), st, tl(secs(10), st, b))))));
        // hedge reports inner errors and readiness errors as AllAttemptsFailed (DESIGN 3.1): ok outcomes only
        run_stack!("api-hedge", OKONLY, |b| tl(secs(30), st, retry(RB::builder().max_attempts(3).exponential_backoff(ms(100)), st,
            cb(CB::builder().failure_rate_threshold(0.5), st, hedge(HedgeLayer::builder().delay(ms(50)).max_hedged_attempts(2), st, tl(secs(10), st, b))))));
        run_stack!("db-standard", ALL, |b| tl(secs(5), st, retry(RB::builder().max_attempts(2), st, bulkhead(20, st, b))));
        run_stack!("db-replica", ALL, |b| tl(secs(5), st, cb(CB::builder().failure_rate_threshold(0.5), st, bulkhead(20, st, b))));
        run_stack!("micro-standard", ALL, |b| tl(secs(5), st, retry(RB::builder().max_attempts(2).fixed_backoff(ms(50)), st,
            cb(CB::builder().failure_rate_threshold(0.6).slow_call_rate_threshold(0.8).slow_call_duration_threshold(secs(2)), st, b))));
        run_stack!("micro-adaptive-vegas", ALL, |b| tl(secs(5), st, adaptive(Vegas::builder().build(), retry(RB::builder().max_attempts(2), st, b))));
        run_stack!("micro-adaptive-aimd", ALL, |b| tl(secs(5), st, adaptive(Aimd::builder().build(), retry(RB::builder().max_attempts(2), st, b))));
        run_stack!("latency-hedge", OKONLY, |b| tl(ms(100), st, hedge(HedgeLayer::builder().delay(ms(10)).max_hedged_attempts(2), st, b)));
        run_stack!("latency-parallel", Opt { errors: false, readiness_err: false, multi_call: true }, |b| tl(ms(50), st, hedge(HedgeLayer::builder().no_delay().max_hedged_attempts(3), st, b)));
        run_stack!("mq-consumer", ALL, |b| tl(secs(30), st, retry(RB::builder().max_attempts(5).exponential_backoff(secs(1)), st,
            cb(CB::builder().failure_rate_threshold(0.5).wait_duration_in_open(secs(60)), st, b))));
        run_stack!("mq-producer", ALL, |b| tl(secs(5), st, retry(RB::builder().max_attempts(3).exponential_backoff(ms(100)), st, bulkhead(50, st, b))));
        run_stack!("cache-standard", ALL, |b| fallback(st, tl(ms(50), st, cb(CB::builder().failure_rate_threshold(0.3), st, b))));
        run_stack!("cache-coalesce", ALL, |b| tl(ms(100), st, coalesce(cb(CB::builder().failure_rate_threshold(0.3), st, b))));
        run_stack!("ordering-client", ALL, |b| fallback(st, cache(st, tl(secs(30), st, cb(CB::builder().failure_rate_threshold(0.5), st, retry(RB::builder().max_attempts(3), st, tl(secs(10), st, b)))))));
        run_stack!("ordering-server", ALL, |b| ratelimit(st, bulkhead(100, st, tl(secs(5), st, b))));
        // executor and chaos (zero rates) appear in no guide stack: put them on top of one
        run_stack!("executor+chaos over db-standard", ALL, |b| executor(chaos(st, tl(secs(5), st, retry(RB::builder().max_attempts(2), st, bulkhead(20, st, b))))));
        eprintln!("listener style {style} done");
    }
}

// DESIGN 4/C20 "not represented": an adaptive limiter / a task-spawning layer / chaos below a PARALLEL hedge,
// with failing attempts. Transparency is not claimed for hedge on errors; the readiness contract and the
// adaptive counter (C13) are.
// real clock: at its limit the adaptive limiter answers Pending and wakes itself at once (busy spin), so under
// a PAUSED clock a caller waiting at the gate keeps the runtime busy and virtual time never advances (hang).
#[tokio::test]
async fn below_a_parallel_hedge() {
    for limit in [1usize, 2, 10] {
        let sh = Arc::new(Shared::default());
        sh.fail_odd.store(true, Ordering::SeqCst);
        sh.slow_ms.store(3, Ordering::SeqCst);
        let b = Strict { sh: sh.clone(), ready: false };
        let alg = Arc::new(Aimd::builder().initial_limit(limit).min_limit(limit).max_limit(limit).build());
        let ad = tower_resilience_adaptive::AdaptiveService::new(executor(chaos(0, b)), alg.clone());
        let probe = ad.clone();
        let ad = ad.map_err(|e| match e { tower_resilience_adaptive::AdaptiveError::Service(x) => x, _ => E(900_006) });
        let mut top = hedge(HedgeLayer::builder().no_delay().max_hedged_attempts(3), 0, ad);
        for x in 0..20u64 {
            let r = tokio::time::timeout(secs(5), async { top.ready().await?.call(x).await }).await.unwrap_or_else(|_| panic!("HANG limit {limit} request {x} in_flight {} calls {:?}", probe.in_flight(), sh.calls.lock().unwrap()));
            if x % 2 == 0 { assert_eq!(r, Ok(2 * x + 1), "limit {limit}"); } else { assert_eq!(r, Err(E(900_004)), "limit {limit}"); }
        }
        tokio::time::sleep(secs(1)).await; // let detached hedge attempts finish
        assert_eq!(sh.violations.load(Ordering::SeqCst), 0, "limit {limit}: contract violated below a parallel hedge");
        assert_eq!(probe.in_flight(), 0, "limit {limit}: adaptive counter after the hedges have finished");
        let calls = sh.calls.lock().unwrap().len();
        eprintln!("limit {limit}: {calls} inner calls for 20 requests");
    }
}
