// Observation (not a C13 violation): at its limit AdaptiveService::poll_ready returns Pending after waking its
// own waker (service.rs:103-107). Under tokio's PAUSED clock a caller parked at the gate keeps the runtime
// busy, so virtual time never auto-advances and the in-flight call that would free the slot never finishes.
// Run with: cargo test --offline --test adaptive_paused_spin -- --ignored   (wrap in `timeout 20`)
use std::time::Duration;
use tower::{Layer, Service, ServiceExt};
use tower_resilience_adaptive::*;

async fn scenario() -> u32 {
    let inner = tower::service_fn(|x: u32| async move { tokio::time::sleep(Duration::from_millis(10)).await; Ok::<_, String>(x) });
    let mut a = AdaptiveLimiterLayer::new(Aimd::builder().initial_limit(1).min_limit(1).max_limit(1).build()).layer(inner);
    let mut b = a.clone();
    let f = a.ready().await.unwrap().call(1);
    let h = tokio::spawn(f);
    let r = b.ready().await.unwrap().call(2).await.unwrap(); // waits at the gate
    h.await.unwrap().unwrap();
    r
}

#[tokio::test]
async fn real_clock_finishes() { assert_eq!(scenario().await, 2); }

#[tokio::test(start_paused = true)]
#[ignore]
async fn paused_clock_never_finishes() { assert_eq!(scenario().await, 2); }
