// Probe e: tower-resilience-chaos (C19, and the chaos part of C20)
use futures::future::{BoxFuture, FutureExt};
use std::panic::{catch_unwind, AssertUnwindSafe};
use std::sync::atomic::{AtomicUsize, Ordering};
use std::sync::{Arc, Mutex};
use std::task::{Context, Poll};
use std::time::Duration;
use tower::{Layer, Service, ServiceExt};
use tower_resilience_chaos::*;

struct Bomb;
impl Drop for Bomb {
    fn drop(&mut self) {
        if !std::thread::panicking() {
            panic!("bomb drop");
        }
    }
}

#[derive(Clone)]
struct Inner {
    calls: Arc<AtomicUsize>,
    ready: Arc<Mutex<Vec<i32>>>,
    fail: bool,
}
impl Inner {
    fn new() -> Self {
        Inner { calls: Arc::new(AtomicUsize::new(0)), ready: Arc::new(Mutex::new(vec![])), fail: false }
    }
}
impl Service<u64> for Inner {
    type Response = u64;
    type Error = String;
    type Future = BoxFuture<'static, Result<u64, String>>;
    fn poll_ready(&mut self, _cx: &mut Context<'_>) -> Poll<Result<(), String>> {
        let r = { let mut v = self.ready.lock().unwrap(); if v.is_empty() { 0 } else { v.remove(0) } };
        match r {
            0 => Poll::Ready(Ok(())),
            1 => Poll::Pending,
            _ => Poll::Ready(Err("not ready".to_string())),
        }
    }
    fn call(&mut self, x: u64) -> Self::Future {
        self.calls.fetch_add(1, Ordering::SeqCst);
        let fail = self.fail;
        async move { if fail { Err(format!("inner{x}")) } else { Ok(x) } }.boxed()
    }
}

const SEEDS: &[u64] = &[0, 1, 42, u64::MAX, u64::MAX - 1, 1 << 63];

// error rate 1 (through every builder route): every call fails, inner never called
#[tokio::test(start_paused = true)]
async fn error_rate_one_all_routes() {
    for &seed in SEEDS {
        let inner = Inner::new();
        let f = |r: &u64| format!("inj{r}");
        let l1 = ChaosLayer::builder().seed(seed).error_rate(1.0).error_fn(f).build();
        let l2 = ChaosLayer::builder().error_fn(f).error_rate(1.0).seed(seed).build();
        let l3 = ChaosLayer::builder().error_rate(0.0).error_fn(f).error_rate(7.5).seed(seed).build(); // clamps to 1
        let l4 = ChaosLayer::builder().error_rate(1.0).error_fn(|_r: &u64| "x".to_string()).error_fn(f).seed(seed).latency_rate(1.0).build();
        let l5 = ChaosLayer::builder().error_rate(f64::INFINITY).error_fn(f).seed(seed).seed(seed).build();
        let l6 = l1.clone();
        macro_rules! drive { ($l:expr, $n:expr) => {{
            let mut s = $l.layer(inner.clone());
            for i in 0..50u64 {
                let r = s.ready().await.unwrap().call(i).await;
                assert_eq!(r, Err(format!("inj{i}")), "{} seed {seed}", $n);
            }
            // a second service from the same layer, and a clone of the service
            let mut s2 = $l.layer(inner.clone());
            let mut s3 = s.clone();
            assert!(s2.ready().await.unwrap().call(1).await.is_err());
            assert!(s3.ready().await.unwrap().call(1).await.is_err());
        }}}
        drive!(l1, "l1"); drive!(l2, "l2"); drive!(l3, "l3"); drive!(l4, "l4"); drive!(l5, "l5"); drive!(l6, "l6");
        assert_eq!(inner.calls.load(Ordering::SeqCst), 0);
    }
}

// both rates 0 by every route: transparent (ok and error outcomes), inner called once, no delay
#[tokio::test(start_paused = true)]
async fn zero_rates_transparent() {
    for fail in [false, true] {
        for &seed in SEEDS {
            let mut inner = Inner::new();
            inner.fail = fail;
            let f = |_r: &u64| "INJECTED".to_string();
            let big = Duration::MAX;
            macro_rules! drive { ($l:expr, $n:expr) => {{
                let before = inner.calls.load(Ordering::SeqCst);
                let mut s = $l.layer(inner.clone());
                let t0 = tokio::time::Instant::now();
                for i in 0..30u64 {
                    let r = s.ready().await.unwrap().call(i).await;
                    if fail { assert_eq!(r, Err(format!("inner{i}")), "{}", $n); } else { assert_eq!(r, Ok(i), "{}", $n); }
                }
                assert_eq!(t0.elapsed(), Duration::ZERO, "{}: delay added", $n);
                assert_eq!(inner.calls.load(Ordering::SeqCst) - before, 30, "{}", $n);
            }}}
            drive!(ChaosLayer::builder().build(), "default");
            drive!(ChaosLayer::builder().seed(seed).min_latency(big).max_latency(big).build(), "huge bounds rate 0");
            drive!(ChaosLayer::builder().seed(seed).latency_rate(-1.0).min_latency(big).build(), "negative latency rate");
            drive!(ChaosLayer::builder().seed(seed).latency_rate(0.0).latency_rate(-0.0).build(), "-0.0");
            drive!(ChaosLayer::builder().seed(seed).error_fn(f).build(), "error_fn no rate");
            drive!(ChaosLayer::builder().seed(seed).error_rate(0.0).error_fn(f).build(), "rate 0 then fn");
            drive!(ChaosLayer::builder().seed(seed).error_rate(1.0).error_fn(f).error_rate(0.0).build(), "rate 1 then 0");
            drive!(ChaosLayer::builder().seed(seed).error_fn(f).error_rate(-3.0).build(), "negative rate");
            drive!(ChaosLayer::builder().seed(seed).error_fn(f).error_rate(-0.0).latency_rate(-0.0).build(), "-0.0 both");
            drive!(ChaosLayer::builder().seed(seed).error_fn(f).error_rate(f64::NAN).latency_rate(f64::NAN).build(), "NaN both (noted)");
            drive!(ChaosLayer::builder().seed(seed).error_rate(1.0).latency_rate(1.0).error_fn(f).error_rate(0.0).latency_rate(0.0).build(), "overwritten");
        }
    }
}

// latency bounds, rate 1, exact virtual time; min = max, min > max, 0, 1 ms, listeners report the same delay
#[tokio::test(start_paused = true)]
async fn latency_within_bounds() {
    let ms = Duration::from_millis;
    for &seed in SEEDS {
        for (lo, hi) in [(0u64, 0u64), (1, 1), (0, 1), (5, 5), (5, 7), (7, 5), (0, 1000), (1000, 0), (1, u32::MAX as u64), (3_600_000, 3_600_001)] {
            let inner = Inner::new();
            let seen = Arc::new(Mutex::new(vec![]));
            let seen2 = seen.clone();
            let l = ChaosLayer::builder()
                .seed(seed)
                .latency_rate(1.0)
                .min_latency(ms(lo))
                .max_latency(ms(hi))
                .on_latency_injected(move |d| seen2.lock().unwrap().push(d))
                .build();
            let mut s = l.layer(inner.clone());
            let mut s_twin = l.clone().layer(inner.clone());
            for i in 0..40u64 {
                let t0 = tokio::time::Instant::now();
                assert_eq!(s.ready().await.unwrap().call(i).await, Ok(i));
                let d = t0.elapsed();
                let (a, b) = (lo.min(hi), lo.max(hi));
                // min > max: the code injects min; accept either order (DESIGN 3.2)
                assert!(ms(a) <= d && d <= ms(b), "seed {seed} [{lo},{hi}] delay {d:?}");
                let t1 = tokio::time::Instant::now();
                assert_eq!(s_twin.ready().await.unwrap().call(i).await, Ok(i));
                assert_eq!(t1.elapsed(), d, "twin (same seed) differs at {i}");
            }
            let v = seen.lock().unwrap();
            assert_eq!(v.len(), 80);
            assert!(v.iter().all(|d| ms(lo.min(hi)) <= *d && *d <= ms(lo.max(hi))));
        }
    }
}

// reproducibility: decisions of two equally seeded layers agree, whatever else differs
#[tokio::test(start_paused = true)]
async fn seeded_reproducible() {
    for &seed in SEEDS {
        for (er, lr) in [(0.5, 0.5), (5e-324, 1.0), (0.9999999999999999, 0.9999999999999999), (0.3, 0.0), (0.0, 0.3), (1.0, 1.0)] {
            let mk = |name: &str| {
                ChaosLayer::builder()
                    .name(name)
                    .error_rate(er)
                    .error_fn(|r: &u64| format!("inj{r}"))
                    .latency_rate(lr)
                    .min_latency(Duration::from_millis(2))
                    .max_latency(Duration::from_millis(9))
                    .seed(seed)
                    .build()
            };
            let ia = Inner::new();
            let mut ib = Inner::new();
            ib.fail = true;
            let mut a = mk("a").layer(ia.clone());
            let lb = mk("b");
            tokio::time::advance(Duration::from_millis(13)).await;
            let mut b = lb.layer(ib.clone());
            let mut inj = 0;
            for i in 0..300u64 {
                let t0 = tokio::time::Instant::now();
                let ra = a.ready().await.unwrap().call(i).await;
                let da = t0.elapsed();
                tokio::time::advance(Duration::from_millis(i % 3)).await;
                let t1 = tokio::time::Instant::now();
                // b is driven through a fresh clone each time
                let mut bc = b.clone();
                let rb = bc.ready().await.unwrap().call(i).await;
                let db = t1.elapsed();
                let ia_inj = ra == Err(format!("inj{i}"));
                let ib_inj = rb == Err(format!("inj{i}"));
                assert_eq!(ia_inj, ib_inj, "seed {seed} er {er} lr {lr} request {i}");
                assert_eq!(da, db, "latency differs seed {seed} request {i}");
                if ia_inj { inj += 1; assert_eq!(da, Duration::ZERO); }
                assert!(da == Duration::ZERO || (Duration::from_millis(2) <= da && da <= Duration::from_millis(9)));
            }
            assert_eq!(ia.calls.load(Ordering::SeqCst), 300 - inj, "inner calls vs injected errors");
            assert_eq!(ib.calls.load(Ordering::SeqCst), 300 - inj);
            if er == 1.0 { assert_eq!(inj, 300); }
            if er == 5e-324 { assert_eq!(inj, 0); }
        }
    }
}

// listeners that panic (String, and a payload whose Drop panics): no outcome changes, later listeners still run
#[tokio::test(start_paused = true)]
async fn panicking_listeners_only_observe() {
    for style in 0..2 {
        let cnt = Arc::new(AtomicUsize::new(0));
        let (c1, c2, c3) = (cnt.clone(), cnt.clone(), cnt.clone());
        let boom = move || { if style == 0 { panic!("listener") } else { std::panic::panic_any(Bomb) } };
        let l = ChaosLayer::builder()
            .seed(7)
            .on_passed_through(move || boom())
            .on_error_injected(move || boom())
            .on_latency_injected(move |_| boom())
            .on_passed_through(move || { c1.fetch_add(1, Ordering::SeqCst); })
            .on_error_injected(move || { c2.fetch_add(1, Ordering::SeqCst); })
            .on_latency_injected(move |_| { c3.fetch_add(1, Ordering::SeqCst); })
            .error_rate(0.3)
            .error_fn(|r: &u64| format!("inj{r}"))
            .latency_rate(0.5)
            .min_latency(Duration::from_millis(1))
            .max_latency(Duration::from_millis(3))
            .build();
        let quiet = ChaosLayer::builder()
            .seed(7)
            .error_rate(0.3)
            .error_fn(|r: &u64| format!("inj{r}"))
            .latency_rate(0.5)
            .min_latency(Duration::from_millis(1))
            .max_latency(Duration::from_millis(3))
            .build();
        let inner = Inner::new();
        let mut a = l.layer(inner.clone());
        let mut b = quiet.layer(inner.clone());
        for i in 0..100u64 {
            let ra = AssertUnwindSafe(a.ready().await.unwrap().call(i)).catch_unwind().await;
            let rb = b.ready().await.unwrap().call(i).await;
            match ra {
                Ok(r) => assert_eq!(r, rb, "style {style} request {i}"),
                Err(_) => panic!("style {style}: listener panic escaped at request {i}"),
            }
        }
        assert_eq!(cnt.load(Ordering::SeqCst), 100, "well-behaved listeners missed events");
    }
}

// readiness: pending and failing inner readiness pass through; dropped / unpolled futures consume nothing visible
#[tokio::test(start_paused = true)]
async fn readiness_and_odd_moments() {
    let inner = Inner::new();
    let l = ChaosLayer::builder().seed(1).error_rate(0.5).error_fn(|r: &u64| format!("inj{r}")).build();
    let mut s = l.layer(inner.clone());
    let mut cx = Context::from_waker(futures::task::noop_waker_ref());
    *inner.ready.lock().unwrap() = vec![1, 2, 0];
    assert!(s.poll_ready(&mut cx).is_pending());
    assert_eq!(s.poll_ready(&mut cx), Poll::Ready(Err("not ready".to_string())));
    assert_eq!(s.poll_ready(&mut cx), Poll::Ready(Ok(())));
    let f = s.call(1);
    drop(f); // unpolled
    assert_eq!(inner.calls.load(Ordering::SeqCst), 0);
    // error fn that panics: only this call panics, the next ones work, the rng lock is not poisoned
    let l = ChaosLayer::builder().seed(1).error_rate(1.0).error_fn(|r: &u64| -> String { if *r == 0 { panic!("error fn") } else { format!("inj{r}") } }).build();
    let mut s = l.layer(inner.clone());
    let r = AssertUnwindSafe(s.ready().await.unwrap().call(0)).catch_unwind().await;
    assert!(r.is_err());
    assert_eq!(s.ready().await.unwrap().call(5).await, Err("inj5".to_string()));
    let _ = catch_unwind(|| ());
}

// C20: chaos with zero rates over services that reserve capacity in poll_ready
#[tokio::test]
async fn chaos_over_reserving_services() {
    use tower::limit::ConcurrencyLimit;
    let inner = Inner::new();
    let l = ChaosLayer::builder().build();
    let mut svc = l.layer(ConcurrencyLimit::new(inner.clone(), 1));
    for i in 0..20 {
        assert_eq!(svc.ready().await.unwrap().call(i).await.unwrap(), i);
    }
    let (b, w) = tower::buffer::Buffer::pair(inner.clone(), 2);
    tokio::spawn(w);
    let mut svc = l.layer(b);
    for i in 0..20 {
        assert_eq!(svc.ready().await.unwrap().call(i).await.unwrap(), i);
    }
    assert_eq!(inner.calls.load(Ordering::SeqCst), 40);
}

// concurrency: many tasks on clones, multi-thread runtime; rate 1 never reaches inner, rate 0 always
#[test]
fn threads_extremes() {
    let rt = tokio::runtime::Builder::new_multi_thread().worker_threads(8).enable_all().build().unwrap();
    rt.block_on(async {
        let inner = Inner::new();
        let one = ChaosLayer::builder().error_rate(1.0).error_fn(|r: &u64| format!("inj{r}")).latency_rate(1.0).build().layer(inner.clone());
        let inner0 = Inner::new();
        let zero = ChaosLayer::builder().error_fn(|r: &u64| format!("inj{r}")).max_latency(Duration::MAX).build().layer(inner0.clone());
        let mut hs = vec![];
        for t in 0..32u64 {
            let (mut a, mut b) = (one.clone(), zero.clone());
            hs.push(tokio::spawn(async move {
                for i in 0..200u64 {
                    assert_eq!(a.ready().await.unwrap().call(i).await, Err(format!("inj{i}")));
                    assert_eq!(b.ready().await.unwrap().call(t * 1000 + i).await, Ok(t * 1000 + i));
                }
            }));
        }
        for h in hs { h.await.unwrap(); }
        assert_eq!(inner.calls.load(Ordering::SeqCst), 0);
        assert_eq!(inner0.calls.load(Ordering::SeqCst), 32 * 200);
    });
}

// real clock: the delay is at least min (tokio never fires early) and not far above max
#[tokio::test]
async fn latency_real_clock() {
    for (lo, hi) in [(0u64, 0u64), (5, 5), (5, 9), (9, 5), (1, 2)] {
        let l = ChaosLayer::builder().seed(11).latency_rate(1.0).min_latency(Duration::from_millis(lo)).max_latency(Duration::from_millis(hi)).build();
        let mut s = l.layer(Inner::new());
        for i in 0..10u64 {
            let t0 = std::time::Instant::now();
            assert_eq!(s.ready().await.unwrap().call(i).await, Ok(i));
            let d = t0.elapsed();
            assert!(d >= Duration::from_millis(lo.min(hi)), "[{lo},{hi}] delay {d:?} below the lower bound");
            assert!(d <= Duration::from_millis(lo.max(hi) + 25), "[{lo},{hi}] delay {d:?} far above the upper bound");
        }
    }
}
