// Probe e: tower-resilience-executor (C20: transparency, readiness; the crate has no listener API)
use futures::future::{BoxFuture, FutureExt};
use std::sync::atomic::{AtomicUsize, Ordering};
use std::sync::{Arc, Mutex};
use std::task::{Context, Poll};
use std::time::Duration;
use tower::{Layer, Service, ServiceExt};
use tower_resilience_executor::*;

#[derive(Clone)]
struct Inner { calls: Arc<Mutex<Vec<(u64, Option<String>)>>>, done: Arc<AtomicUsize>, ready: Arc<Mutex<Vec<i32>>>, polled: bool }
impl Inner { fn new() -> Self { Inner { calls: Default::default(), done: Default::default(), ready: Default::default(), polled: false } } }
impl Service<u64> for Inner {
    type Response = u64; type Error = String; type Future = BoxFuture<'static, Result<u64, String>>;
    fn poll_ready(&mut self, cx: &mut Context<'_>) -> Poll<Result<(), String>> {
        let r = { let mut v = self.ready.lock().unwrap(); if v.is_empty() { 0 } else { v.remove(0) } };
        match r { 1 => { cx.waker().wake_by_ref(); Poll::Pending } 2 => Poll::Ready(Err("not ready".into())), _ => { self.polled = true; Poll::Ready(Ok(())) } }
    }
    fn call(&mut self, x: u64) -> Self::Future {
        assert!(self.polled, "call on an instance that was not polled ready");
        self.polled = false;
        self.calls.lock().unwrap().push((x, std::thread::current().name().map(|s| s.to_string())));
        let done = self.done.clone();
        match x % 10 {
            7 => panic!("sync panic"),
            8 => async move { tokio::task::yield_now().await; panic!("future panic") }.boxed(),
            9 => async move { tokio::time::sleep(Duration::from_millis(30)).await; done.fetch_add(1, Ordering::SeqCst); Ok(x) }.boxed(),
            1 => async move { Err(format!("e{x}")) }.boxed(),
            _ => async move { tokio::task::yield_now().await; Ok(x + 1) }.boxed(),
        }
    }
}

#[tokio::test(flavor = "multi_thread", worker_threads = 2)]
async fn executor_routes_and_outcomes() {
    let other = tokio::runtime::Builder::new_multi_thread().worker_threads(2).thread_name("other-rt").enable_all().build().unwrap();
    let inner = Inner::new();
    macro_rules! drive { ($name:expr, $layer:expr, $thread:expr) => {{
        let mut s = $layer.layer(inner.clone());
        let before = inner.calls.lock().unwrap().len();
        assert_eq!(s.ready().await.unwrap().call(20).await, Ok(21), "{}", $name);
        assert_eq!(s.ready().await.unwrap().call(31).await, Err(ExecutorError::Service("e31".to_string())), "{}", $name);
        // inner panics: documented TaskCancelled
        assert_eq!(s.ready().await.unwrap().call(47).await, Err(ExecutorError::TaskCancelled), "{}", $name);
        assert_eq!(s.ready().await.unwrap().call(58).await, Err(ExecutorError::TaskCancelled), "{}", $name);
        // readiness
        *inner.ready.lock().unwrap() = vec![1, 1, 2];
        assert_eq!(s.ready().await.map(|_| ()), Err(ExecutorError::Service("not ready".to_string())), "{}", $name);
        assert_eq!(s.ready().await.unwrap().call(60).await, Ok(61));
        // clone taken after readiness: the clone must be polled again; original still fine
        let _ = s.ready().await.unwrap();
        let mut c = s.clone();
        assert_eq!(s.call(70).await, Ok(71));
        assert_eq!(c.ready().await.unwrap().call(80).await, Ok(81));
        // dropped response future: the task still runs to completion (documented), request forwarded once
        let d0 = inner.done.load(Ordering::SeqCst);
        drop(s.ready().await.unwrap().call(99));
        tokio::time::sleep(Duration::from_millis(120)).await;
        assert_eq!(inner.done.load(Ordering::SeqCst), d0 + 1, "{}", $name);
        let calls = inner.calls.lock().unwrap();
        let mine: Vec<_> = calls[before..].iter().map(|c| c.0).collect();
        assert_eq!(mine, vec![20, 31, 47, 58, 60, 70, 80, 99], "{}: each request forwarded exactly once, in order", $name);
        if let Some(t) = $thread { assert!(calls[before..].iter().all(|c| c.1.as_deref() == Some(t)), "{}: ran on {:?}", $name, calls[before..].iter().map(|c| c.1.clone()).collect::<Vec<_>>()); }
    }}}
    drive!("new(handle)", ExecutorLayer::new(tokio::runtime::Handle::current()), None::<&str>);
    drive!("current()", ExecutorLayer::current(), None::<&str>);
    drive!("other runtime", ExecutorLayer::new(other.handle().clone()), Some("other-rt"));
    drive!("builder.handle", ExecutorLayer::builder().handle(other.handle().clone()).build(), Some("other-rt"));
    drive!("builder.current", ExecutorLayer::<tokio::runtime::Handle>::builder().current().build(), None::<&str>);
    drive!("builder.executor twice", ExecutorLayer::builder().executor(CurrentRuntime::new()).executor(CurrentRuntime::default()).build(), None::<&str>);
    drive!("blocking", ExecutorLayer::new(BlockingExecutor::new(other.handle().clone())), Some("other-rt"));
    drive!("blocking current", ExecutorLayer::new(BlockingExecutor::current()), None::<&str>);
    // accessors
    let mut s = ExecutorService::new(inner.clone(), CurrentRuntime::new());
    let _ = s.get_ref();
    let _ = s.get_mut().ready().await.unwrap(); // readiness observed through get_mut counts: same instance
    assert_eq!(s.call(100).await, Ok(101));
    let _ = s.into_inner();
    // a runtime that has been shut down: the request is never forwarded; TaskCancelled (documented variant)
    let h = other.handle().clone();
    other.shutdown_background();
    let n = inner.calls.lock().unwrap().len();
    let mut s = ExecutorLayer::new(h).layer(inner.clone());
    let r = tokio::time::timeout(Duration::from_secs(5), s.ready().await.unwrap().call(110)).await;
    eprintln!("shut-down runtime: {:?}; forwarded {}", r, inner.calls.lock().unwrap().len() - n);
}

#[tokio::test(start_paused = true)]
async fn executor_over_reserving_services() {
    use tower::limit::ConcurrencyLimit;
    let inner = Inner::new();
    let l = ExecutorLayer::current();
    let mut svc = l.layer(ConcurrencyLimit::new(inner.clone(), 1));
    for i in (0..40).map(|i| i * 10) {
        assert_eq!(svc.ready().await.unwrap().call(i).await.unwrap(), i + 1);
    }
    let (b, w) = tower::buffer::Buffer::pair(inner.clone(), 1);
    tokio::spawn(w);
    let mut svc = l.layer(b);
    for i in (0..40).map(|i| i * 10) {
        assert_eq!(svc.ready().await.unwrap().call(i).await.unwrap(), i + 1);
    }
    // 16 concurrent callers over ConcurrencyLimit(2)
    let svc = l.layer(ConcurrencyLimit::new(inner.clone(), 2));
    let mut hs = vec![];
    for t in 0..16u64 { let mut c = svc.clone(); hs.push(tokio::spawn(async move { for i in 0..10u64 { let x = (t * 100 + i) * 10 + 9; assert_eq!(c.ready().await.unwrap().call(x).await.unwrap(), x); } })); }
    for h in hs { tokio::time::timeout(Duration::from_secs(3600), h).await.expect("hang").unwrap(); }
}
