//! Probes: Tower readiness contract towards a strict inner service (closed / open / half-open, pending
//! and failing readiness, clones taken between poll_ready and call, tower ConcurrencyLimit / Buffer
//! below the breaker with rejected calls: no permit may leak), fallbacks that are pending / fail /
//! panic / are dropped half-way, operator methods of the fallback handle, inner services whose call
//! panics synchronously or whose future panics (closed and as half-open trial).
use futures::future::BoxFuture;
use std::collections::VecDeque;
use std::sync::atomic::{AtomicUsize, Ordering::SeqCst};
use std::sync::{Arc, Mutex};
use std::task::{Context, Poll};
use std::time::Duration;
use tower::{Service, ServiceExt};
use tower_resilience_circuitbreaker::{CircuitBreakerError, CircuitBreakerLayer, CircuitState};

#[derive(Clone, Copy, Debug, PartialEq)]
enum R { Ready, Pending, Fail }
#[derive(Clone, Copy, Debug, PartialEq)]
enum Act { Ok, Err, PanicSync, PanicFut, Gate }
struct Shared { polls: Mutex<VecDeque<R>>, acts: Mutex<VecDeque<Act>>, calls: AtomicUsize, violations: AtomicUsize, gate: tokio::sync::Notify }
struct Strict { sh: Arc<Shared>, ready: bool }
impl Clone for Strict { fn clone(&self) -> Self { Strict { sh: self.sh.clone(), ready: false } } }
impl Service<u32> for Strict {
    type Response = u32; type Error = String; type Future = BoxFuture<'static, Result<u32, String>>;
    fn poll_ready(&mut self, cx: &mut Context<'_>) -> Poll<Result<(), String>> {
        match self.sh.polls.lock().unwrap().pop_front().unwrap_or(R::Ready) {
            R::Ready => { self.ready = true; Poll::Ready(Ok(())) }
            R::Pending => { cx.waker().wake_by_ref(); Poll::Pending }
            R::Fail => Poll::Ready(Err("not ready".into())),
        }
    }
    fn call(&mut self, req: u32) -> Self::Future {
        if !std::mem::replace(&mut self.ready, false) { self.sh.violations.fetch_add(1, SeqCst); }
        self.sh.calls.fetch_add(1, SeqCst);
        let act = self.sh.acts.lock().unwrap().pop_front().unwrap_or(Act::Ok);
        if act == Act::PanicSync { panic!("inner call panics synchronously"); }
        let sh = self.sh.clone();
        Box::pin(async move {
            match act { Act::Ok => Ok(req), Act::Err => Err(format!("e{req}")), Act::PanicFut => panic!("inner future panics"),
                        Act::Gate => { sh.gate.notified().await; Ok(req) } Act::PanicSync => unreachable!() }
        })
    }
}
fn strict() -> (Strict, Arc<Shared>) {
    let sh = Arc::new(Shared { polls: Default::default(), acts: Default::default(), calls: AtomicUsize::new(0), violations: AtomicUsize::new(0), gate: tokio::sync::Notify::new() });
    (Strict { sh: sh.clone(), ready: false }, sh)
}
fn layer(wait_ms: u64, permitted: usize) -> CircuitBreakerLayer {
    CircuitBreakerLayer::builder().sliding_window_size(2).failure_rate_threshold(0.5)
        .wait_duration_in_open(Duration::from_millis(wait_ms)).permitted_calls_in_half_open(permitted).build()
}

#[tokio::test]
async fn readiness_contract() {
    let (inner, sh) = strict();
    let mut svc = layer(30, 1).layer_fn(inner);
    // pending readiness is forwarded, then the polled instance is called
    sh.polls.lock().unwrap().extend([R::Pending, R::Pending, R::Ready]);
    assert_eq!(svc.ready().await.unwrap().call(1).await.unwrap(), 1);
    // failing readiness surfaces as Inner(readiness error), no call is made, nothing is recorded
    sh.polls.lock().unwrap().push_back(R::Fail);
    let e = futures::future::poll_fn(|cx| svc.poll_ready(cx)).await;
    assert!(matches!(e, Err(CircuitBreakerError::Inner(ref s)) if s == "not ready"), "{e:?}");
    assert_eq!(svc.metrics().await.total_calls, 1);
    // clone taken between poll_ready and call; the ORIGINAL is called
    let _ = svc.ready().await.unwrap();
    let mut c2 = svc.clone();
    assert_eq!(svc.call(2).await.unwrap(), 2);
    // the clone needs its own readiness
    assert_eq!(c2.ready().await.unwrap().call(3).await.unwrap(), 3);
    // open the breaker; rejected calls take the ready instance with them: next call polls again
    svc.force_open().await;
    for i in 0..5 { assert!(matches!(svc.ready().await.unwrap().call(i).await, Err(CircuitBreakerError::OpenCircuit))); }
    tokio::time::sleep(Duration::from_millis(40)).await;
    assert_eq!(svc.ready().await.unwrap().call(9).await.unwrap(), 9); // trial
    assert_eq!(svc.state().await, CircuitState::Closed);
    // call future created, never polled, dropped; then created while closed and polled after force_open
    let _ = svc.ready().await.unwrap();
    drop(svc.call(10));
    let _ = svc.ready().await.unwrap();
    let f = svc.call(11);
    svc.force_open().await;
    assert!(matches!(f.await, Err(CircuitBreakerError::OpenCircuit)));
    assert_eq!(sh.violations.load(SeqCst), 0, "readiness violations");
    assert_eq!(sh.calls.load(SeqCst), 4);
}

#[tokio::test]
async fn no_permit_leak_over_concurrency_limit_and_buffer() {
    let (inner, sh) = strict();
    let limited = tower::limit::ConcurrencyLimit::new(inner, 1);
    let mut svc = layer(3_600_000, 1).layer_fn(limited);
    svc.force_open().await;
    for i in 0..20 {
        let r = tokio::time::timeout(Duration::from_secs(1), async { svc.ready().await.unwrap().call(i).await }).await.expect("hang: permit leaked by a rejected call");
        assert!(matches!(r, Err(CircuitBreakerError::OpenCircuit)));
    }
    // held, un-polled rejected future keeps the permit only until dropped
    let _ = svc.ready().await.unwrap();
    let held = svc.call(99);
    let mut other = svc.clone();
    assert!(tokio::time::timeout(Duration::from_millis(50), other.ready()).await.is_err(), "permit is held by the un-polled future");
    drop(held);
    svc.force_closed().await;
    let r = tokio::time::timeout(Duration::from_secs(1), async { other.ready().await.unwrap().call(5).await }).await.expect("hang");
    assert_eq!(r.unwrap(), 5);
    assert_eq!((sh.calls.load(SeqCst), sh.violations.load(SeqCst)), (1, 0));
    // Buffer below the breaker
    let (inner, sh) = strict();
    let (buf, worker) = tower::buffer::Buffer::pair(inner, 2);
    tokio::spawn(worker);
    let mut svc = layer(3_600_000, 1).layer_fn(buf);
    svc.force_open().await;
    for i in 0..10 { let r = tokio::time::timeout(Duration::from_secs(1), async { svc.ready().await.unwrap().call(i).await }).await.expect("hang (buffer)"); assert!(r.is_err()); }
    svc.reset().await;
    for i in 0..5 { let r = tokio::time::timeout(Duration::from_secs(1), async { svc.ready().await.unwrap().call(i).await }).await.expect("hang (buffer)"); assert_eq!(r.unwrap(), i); }
    assert_eq!((sh.calls.load(SeqCst), sh.violations.load(SeqCst)), (5, 0));
}

#[tokio::test]
async fn fallback_variants() {
    let prev = std::panic::take_hook();
    std::panic::set_hook(Box::new(|_| {}));
    let (inner, sh) = strict();
    let plain = layer(60, 1).layer_fn(inner);
    let ctl = plain.clone(); // clone taken BEFORE with_fallback must share the circuit
    let fb_calls = Arc::new(AtomicUsize::new(0));
    let f = fb_calls.clone();
    let mut svc = plain.with_fallback(move |r: u32| -> BoxFuture<'static, Result<u32, String>> {
        f.fetch_add(1, SeqCst);
        Box::pin(async move { match r {
            1 => { tokio::time::sleep(Duration::from_millis(20)).await; Ok(9001) } // pending fallback
            2 => Err("fallback failed".to_string()),
            3 => panic!("fallback panics"),
            4 => futures::future::pending().await,
            _ => Ok(9000 + r),
        } })
    });
    // closed: transparent, fallback untouched
    assert_eq!(svc.ready().await.unwrap().call(7).await.unwrap(), 7);
    sh.acts.lock().unwrap().push_back(Act::Err);
    assert!(matches!(svc.ready().await.unwrap().call(8).await, Err(CircuitBreakerError::Inner(ref e)) if e == "e8")); // 1/2 => open
    assert_eq!(fb_calls.load(SeqCst), 0);
    assert_eq!((ctl.state().await, svc.state().await, ctl.state_sync(), svc.state_sync()), (CircuitState::Open, CircuitState::Open, CircuitState::Open, CircuitState::Open));
    let inner_before = sh.calls.load(SeqCst);
    assert_eq!(svc.ready().await.unwrap().call(1).await.unwrap(), 9001);
    let r = svc.ready().await.unwrap().call(2).await;
    println!("failing fallback is reported as: {r:?}");
    assert!(matches!(r, Err(CircuitBreakerError::Inner(ref e)) if e == "fallback failed"));
    let mut s2 = svc.clone();
    let j = tokio::spawn(async move { s2.ready().await.unwrap().call(3).await }).await;
    assert!(j.is_err(), "fallback panic reaches the caller");
    // fallback future dropped half-way
    let fut = svc.ready().await.unwrap().call(4);
    assert!(tokio::time::timeout(Duration::from_millis(10), fut).await.is_err());
    assert_eq!(svc.state().await, CircuitState::Open);
    assert_eq!(sh.calls.load(SeqCst), inner_before, "inner untouched while open");
    // operator methods through the fallback handle reach the same circuit
    svc.force_closed().await;
    assert_eq!((ctl.state().await, ctl.state_sync()), (CircuitState::Closed, CircuitState::Closed));
    ctl.force_open().await;
    assert!(svc.is_open());
    assert_eq!((svc.http_status(), svc.health_status()), (503, "unhealthy"));
    svc.reset().await;
    assert_eq!(ctl.metrics().await.total_calls, 0);
    // half-open: the call beyond the permitted trial goes to the fallback, not to inner
    ctl.force_open().await;
    tokio::time::sleep(Duration::from_millis(70)).await;
    sh.acts.lock().unwrap().push_back(Act::Gate);
    let mut t = svc.clone();
    let trial = tokio::spawn(async move { t.ready().await.unwrap().call(50).await });
    tokio::time::sleep(Duration::from_millis(10)).await;
    assert_eq!(svc.state().await, CircuitState::HalfOpen);
    let before = sh.calls.load(SeqCst);
    assert_eq!(svc.ready().await.unwrap().call(51).await.unwrap(), 9051);
    assert_eq!(sh.calls.load(SeqCst), before);
    sh.gate.notify_one();
    assert_eq!(trial.await.unwrap().unwrap(), 50);
    assert_eq!(svc.state().await, CircuitState::Closed);
    assert_eq!(sh.violations.load(SeqCst), 0);
    std::panic::set_hook(prev);
}

#[tokio::test]
async fn inner_panics() {
    let prev = std::panic::take_hook();
    std::panic::set_hook(Box::new(|_| {}));
    for act in [Act::PanicSync, Act::PanicFut] {
        for with_fb in [false, true] {
            let (inner, sh) = strict();
            let plain = layer(20, 1).layer_fn(inner);
            let ctl = plain.clone();
            macro_rules! go { ($svc:expr) => {{
                let svc = $svc;
                // closed
                sh.acts.lock().unwrap().push_back(act);
                let mut s = svc.clone();
                assert!(tokio::spawn(async move { s.ready().await.unwrap().call(1).await }).await.is_err());
                assert_eq!(tokio::time::timeout(Duration::from_secs(1), ctl.metrics()).await.expect("lock wedged").total_calls, 0);
                // the handle that panicked (synchronously, inside the future) is gone; clones keep working
                let mut s = svc.clone();
                assert_eq!(s.ready().await.unwrap().call(2).await.unwrap(), 2);
                // half-open trial that panics hands its slot back (permitted = 1)
                ctl.force_open().await;
                tokio::time::sleep(Duration::from_millis(30)).await;
                sh.acts.lock().unwrap().push_back(act);
                let mut s = svc.clone();
                assert!(tokio::spawn(async move { s.ready().await.unwrap().call(3).await }).await.is_err());
                assert_eq!(ctl.state().await, CircuitState::HalfOpen);
                let mut s = svc.clone();
                let r = tokio::time::timeout(Duration::from_secs(1), async { s.ready().await.unwrap().call(4).await }).await.expect("hang");
                assert_eq!(r.unwrap(), 4, "slot must have been handed back");
                assert_eq!(ctl.state().await, CircuitState::Closed);
            }}}
            if with_fb { go!(plain.with_fallback(|r: u32| -> BoxFuture<'static, Result<u32, String>> { Box::pin(async move { Ok(r + 9000) }) })); } else { go!(plain); }
            assert_eq!(sh.violations.load(SeqCst), 0);
        }
    }
    std::panic::set_hook(prev);
}
