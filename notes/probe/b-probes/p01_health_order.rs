//! Probe: health-integration triggers are fire-and-forget `tokio::spawn`s. Does a SEQUENCE of
//! triggers (unhealthy, then healthy) leave the breaker in the state of the LAST trigger (C04:
//! "for any sequence of ... manual overrides the observable state equals that of the documented machine")?
#![cfg(feature = "health")]
use std::time::Duration;
use tower::service_fn;
use tower_resilience_circuitbreaker::{CircuitBreakerLayer, CircuitState};
use tower_resilience_core::HealthTriggerable;

fn breaker() -> tower_resilience_circuitbreaker::CircuitBreaker<
    impl tower::Service<u32, Response = u32, Error = (), Future = impl Send> + Clone + Send + Sync,
    tower_resilience_circuitbreaker::DefaultClassifier,
> {
    let layer = CircuitBreakerLayer::builder()
        .wait_duration_in_open(Duration::from_secs(3600))
        .build();
    layer.layer_fn(service_fn(|r: u32| async move { Ok::<u32, ()>(r) }))
}

async fn settle() {
    for _ in 0..50 {
        tokio::task::yield_now().await;
    }
    tokio::time::sleep(Duration::from_millis(5)).await;
}

#[tokio::test(flavor = "multi_thread", worker_threads = 4)]
async fn unhealthy_then_healthy_from_worker_task() {
    // run inside a spawned task so that we are on a worker thread (LIFO slot in play)
    let h = tokio::spawn(async {
        let mut wrong = 0;
        let n = 500;
        for _ in 0..n {
            let b = breaker();
            b.trigger_unhealthy();
            b.trigger_healthy(); // last word: healthy => must end Closed
            settle().await;
            if b.state().await != CircuitState::Closed {
                wrong += 1;
            }
        }
        (wrong, n)
    });
    let (wrong, n) = h.await.unwrap();
    println!("unhealthy;healthy  -> ended Open in {wrong}/{n} rounds");
    let h = tokio::spawn(async {
        let mut wrong = 0;
        let n = 500;
        for _ in 0..n {
            let b = breaker();
            b.trigger_healthy();
            b.trigger_unhealthy(); // last word: unhealthy => must end Open
            settle().await;
            if b.state().await != CircuitState::Open {
                wrong += 1;
            }
        }
        (wrong, n)
    });
    let (wrong2, n2) = h.await.unwrap();
    println!("healthy;unhealthy  -> ended Closed in {wrong2}/{n2} rounds");
    assert_eq!((wrong, wrong2), (0, 0));
}

#[tokio::test(flavor = "current_thread")]
async fn unhealthy_then_healthy_current_thread() {
    let mut wrong = 0;
    for _ in 0..200 {
        let b = breaker();
        b.trigger_unhealthy();
        b.trigger_healthy();
        settle().await;
        if b.state().await != CircuitState::Closed {
            wrong += 1;
        }
    }
    println!("current_thread: wrong {wrong}/200");
    assert_eq!(wrong, 0);
}

/// trigger while a caller holds the circuit lock is impossible to observe from outside; but a trigger
/// outside any runtime (health checker on a plain thread) is possible: the trait is sync.
#[test]
fn trigger_outside_runtime() {
    let b = breaker();
    let r = std::panic::catch_unwind(std::panic::AssertUnwindSafe(|| b.trigger_unhealthy()));
    println!("trigger_unhealthy outside a runtime: panicked = {}", r.is_err());
    assert!(r.is_ok(), "trigger_unhealthy panicked outside a tokio runtime");
}

/// Same root cause, single-threaded runtime: a trigger followed by an operator action. The operator's
/// `force_closed().await` is applied at once, the trigger's spawned `force_open` afterwards.
#[tokio::test(flavor = "current_thread")]
async fn trigger_then_operator_current_thread() {
    let b = breaker();
    b.trigger_unhealthy();
    b.force_closed().await; // last word: closed
    settle().await;
    let s = b.state().await;
    println!("trigger_unhealthy(); force_closed().await  -> {s:?}");
    let b2 = breaker();
    b2.force_open().await;
    b2.trigger_healthy();
    b2.force_open().await; // no-op (already open); last word: open
    settle().await;
    let s2 = b2.state().await;
    println!("force_open; trigger_healthy(); force_open().await -> {s2:?}");
    assert_eq!((s, s2), (CircuitState::Closed, CircuitState::Open));
}

/// paused tokio clock: the breaker reads std::time::Instant, so virtual time must not move it
#[tokio::test(flavor = "current_thread", start_paused = true)]
async fn paused_clock_is_ignored() {
    use tower::{Service, ServiceExt};
    let layer = CircuitBreakerLayer::builder().sliding_window_size(1).wait_duration_in_open(Duration::from_millis(200)).build();
    let mut svc = layer.layer_fn(service_fn(|r: u32| async move { if r > 0 { Ok::<u32, ()>(r) } else { Err(()) } }));
    let _ = svc.ready().await.unwrap().call(0).await;
    assert_eq!(svc.state().await, CircuitState::Open);
    tokio::time::advance(Duration::from_secs(3600)).await; // virtual hour
    assert!(svc.ready().await.unwrap().call(1).await.is_err(), "virtual time must not end the open wait");
    std::thread::sleep(Duration::from_millis(210)); // real time does
    assert_eq!(svc.ready().await.unwrap().call(1).await.unwrap(), 1);
    assert_eq!(svc.state().await, CircuitState::Closed);
}
