//! Probe (C20 "listeners only observe"): every on_* hook of the breaker's builder gets a listener that
//! panics (String payload, or panic_any of a value whose Drop panics) registered BEFORE a counting
//! listener. A fixed history (closed -> open by rate -> rejected -> half-open -> closed -> open ->
//! half-open -> open -> force_closed -> reset), with and without fallback, must give the same
//! outcomes, states and observer counts as the run with well-behaved listeners.
use futures::future::BoxFuture;
use std::sync::atomic::{AtomicUsize, Ordering::SeqCst};
use std::sync::{Arc, Mutex};
use std::time::Duration;
use tower::{Service, ServiceExt};
use tower_resilience_circuitbreaker::{CircuitBreakerLayer, CircuitState};

struct Bomb;
impl Drop for Bomb {
    fn drop(&mut self) {
        if !std::thread::panicking() {
            panic!("bomb dropped");
        }
    }
}
#[derive(Clone, Copy, PartialEq, Debug)]
enum Mode {
    Quiet,
    Str,
    Bomb,
}
fn misbehave(m: Mode) {
    match m {
        Mode::Quiet => {}
        Mode::Str => panic!("listener panics"),
        Mode::Bomb => std::panic::panic_any(Bomb),
    }
}

#[derive(Clone)]
struct Inner {
    script: Arc<Mutex<std::collections::VecDeque<(bool, u64)>>>, // (ok?, latency ms)
    calls: Arc<AtomicUsize>,
}
impl Service<u32> for Inner {
    type Response = u32;
    type Error = String;
    type Future = BoxFuture<'static, Result<u32, String>>;
    fn poll_ready(&mut self, _: &mut std::task::Context<'_>) -> std::task::Poll<Result<(), String>> {
        std::task::Poll::Ready(Ok(()))
    }
    fn call(&mut self, req: u32) -> Self::Future {
        self.calls.fetch_add(1, SeqCst);
        let (ok, ms) = self.script.lock().unwrap().pop_front().expect("script exhausted");
        Box::pin(async move {
            if ms > 0 {
                tokio::time::sleep(Duration::from_millis(ms)).await;
            }
            if ok { Ok(req + 1000) } else { Err(format!("e{req}")) }
        })
    }
}

async fn run(mode: Mode, which: usize, fallback: bool) -> (Vec<String>, Vec<usize>) {
    let counts: Vec<Arc<AtomicUsize>> = (0..6).map(|_| Arc::new(AtomicUsize::new(0))).collect();
    let m = |i: usize| if which == i || which == 99 { mode } else { Mode::Quiet };
    let (m0, m1, m2, m3, m4, m5) = (m(0), m(1), m(2), m(3), m(4), m(5));
    let c = counts.clone();
    let layer = CircuitBreakerLayer::builder()
        .sliding_window_size(4)
        .minimum_number_of_calls(2)
        .failure_rate_threshold(0.5)
        .wait_duration_in_open(Duration::from_millis(60))
        .permitted_calls_in_half_open(2)
        .slow_call_duration_threshold(Duration::from_millis(30))
        .slow_call_rate_threshold(1.0)
        .on_state_transition(move |_, _| misbehave(m0))
        .on_call_permitted(move |_| misbehave(m1))
        .on_call_rejected(move || misbehave(m2))
        .on_success(move |_| misbehave(m3))
        .on_failure(move |_| misbehave(m4))
        .on_slow_call(move |_| misbehave(m5))
        .on_state_transition({ let c = c[0].clone(); move |_, _| { c.fetch_add(1, SeqCst); } })
        .on_call_permitted({ let c = c[1].clone(); move |_| { c.fetch_add(1, SeqCst); } })
        .on_call_rejected({ let c = c[2].clone(); move || { c.fetch_add(1, SeqCst); } })
        .on_success({ let c = c[3].clone(); move |_| { c.fetch_add(1, SeqCst); } })
        .on_failure({ let c = c[4].clone(); move |_| { c.fetch_add(1, SeqCst); } })
        .on_slow_call({ let c = c[5].clone(); move |_| { c.fetch_add(1, SeqCst); } })
        .build();
    // (ok, latency)
    let script = vec![
        (true, 0), (false, 0), (true, 45), (false, 0), // -> Open (2/4)
        (true, 0), (true, 0),                          // trials -> Closed
        (false, 0), (false, 0), (false, 0), (false, 0), // -> Open
        (false, 0),                                     // trial fails -> Open
        (true, 0), (true, 0),
    ];
    let inner = Inner { script: Arc::new(Mutex::new(script.into())), calls: Arc::new(AtomicUsize::new(0)) };
    let calls = inner.calls.clone();
    let plain = layer.layer_fn(inner);
    let ctl = plain.clone();
    let mut log = Vec::new();
    macro_rules! drive {
        ($svc:expr) => {{
            let mut svc = $svc;
            let mut req = 0u32;
            macro_rules! call { () => {{
                req += 1;
                let r = svc.ready().await.unwrap().call(req).await;
                log.push(format!("{req}:{r:?}:{:?}:{:?}:{}", ctl.state().await, ctl.state_sync(), calls.load(SeqCst)));
            }}}
            for _ in 0..4 { call!(); }
            call!(); call!(); // rejected
            tokio::time::sleep(Duration::from_millis(80)).await;
            call!(); call!(); // trials
            for _ in 0..4 { call!(); }
            call!(); // rejected
            tokio::time::sleep(Duration::from_millis(80)).await;
            call!(); // failing trial
            call!(); // rejected
            ctl.force_closed().await;
            call!();
            ctl.force_open().await;
            call!();
            ctl.reset().await;
            call!();
            let m = ctl.metrics().await;
            log.push(format!("metrics {:?} {} {} {} {}", m.state, m.total_calls, m.failure_count, m.success_count, m.slow_call_count));
        }};
    }
    if fallback {
        drive!(plain.with_fallback(|r: u32| -> BoxFuture<'static, Result<u32, String>> { Box::pin(async move { Ok(r + 9000) }) }));
    } else {
        drive!(plain);
    }
    (log, counts.iter().map(|c| c.load(SeqCst)).collect())
}

#[tokio::test]
async fn listeners_only_observe() {
    let prev = std::panic::take_hook();
    std::panic::set_hook(Box::new(|_| {}));
    let mut bad = 0;
    for fallback in [false, true] {
        let (ref_log, ref_counts) = run(Mode::Quiet, 99, fallback).await;
        println!("reference fallback={fallback}: counts {ref_counts:?}");
        for l in &ref_log { println!("   {l}"); }
        assert!(ref_log.iter().any(|l| l.contains("Open")));
        for mode in [Mode::Str, Mode::Bomb] {
            for which in [0usize, 1, 2, 3, 4, 5, 99] {
                let r = tokio::spawn(run(mode, which, fallback)).await;
                match r {
                    Ok((log, counts)) if log == ref_log && counts == ref_counts => {}
                    Ok((log, counts)) => {
                        bad += 1;
                        println!("DIFF mode={mode:?} which={which} fallback={fallback}: counts {counts:?} vs {ref_counts:?}");
                        for (a, b) in log.iter().zip(ref_log.iter()) { if a != b { println!("   got {a}\n   ref {b}"); } }
                    }
                    Err(e) => { bad += 1; println!("PANIC ESCAPED mode={mode:?} which={which} fallback={fallback}: {e}"); }
                }
            }
        }
    }
    std::panic::set_hook(prev);
    assert_eq!(bad, 0);
}
