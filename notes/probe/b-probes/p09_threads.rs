//! Probe (C09/C03 on real threads, 8 workers): bursts of 64 callers on clones at a half-open breaker whose
//! trial calls are held inside the inner service; panicking listeners on every hook, with and without
//! fallback, both window types, health triggers used to open. Inner entries per burst must be exactly
//! `permitted`; while open (wait 1 h) bursts must not enter at all.
use futures::future::BoxFuture;
use std::sync::atomic::{AtomicUsize, Ordering::SeqCst};
use std::sync::Arc;
use std::time::Duration;
use tokio::sync::Semaphore;
use tower::{service_fn, Service, ServiceExt};
use tower_resilience_circuitbreaker::{CircuitBreakerLayer, CircuitState, SlidingWindowType};

#[tokio::test(flavor = "multi_thread", worker_threads = 8)]
async fn bursts() {
    let prev = std::panic::take_hook();
    std::panic::set_hook(Box::new(|_| {}));
    let mut excess = 0; let mut short = 0; let mut leaked_open = 0; let mut rounds = 0;
    for time_based in [false, true] {
      for permitted in [1usize, 2, 5] {
        for fallback in [false, true] {
          for round in 0..25 {
            rounds += 1;
            let entered = Arc::new(AtomicUsize::new(0));
            let gate = Arc::new(Semaphore::new(0));
            let (e, g) = (entered.clone(), gate.clone());
            let mut b = CircuitBreakerLayer::builder().sliding_window_size(4).failure_rate_threshold(0.5)
                .permitted_calls_in_half_open(permitted)
                .wait_duration_in_open(if round % 5 == 4 { Duration::from_secs(3600) } else { Duration::from_millis(2) })
                .on_state_transition(|_, _| panic!("l")).on_call_permitted(|_| panic!("l")).on_call_rejected(|| panic!("l"))
                .on_success(|_| panic!("l")).on_failure(|_| panic!("l"));
            if time_based { b = b.sliding_window_type(SlidingWindowType::TimeBased).sliding_window_duration(Duration::from_secs(5)).minimum_number_of_calls(2); }
            let plain = b.build().layer_fn(service_fn(move |_: u32| { let (e, g) = (e.clone(), g.clone()); async move {
                e.fetch_add(1, SeqCst); let _p = g.acquire().await.unwrap(); Ok::<u32, ()>(1) } }));
            let ctl = plain.clone();
            ctl.force_open().await;
            tokio::time::sleep(Duration::from_millis(5)).await;
            let mut tasks = vec![];
            macro_rules! launch { ($svc:expr) => { for i in 0..64u32 { let mut s = $svc.clone(); tasks.push(tokio::spawn(async move { s.ready().await.unwrap().call(i).await.is_ok() })); } } }
            if fallback { let f = plain.with_fallback(|_: u32| -> BoxFuture<'static, Result<u32, ()>> { Box::pin(async { Err(()) }) }); launch!(f); } else { launch!(plain); }
            tokio::time::sleep(Duration::from_millis(30)).await;
            let n = entered.load(SeqCst);
            if round % 5 == 4 {
                if n != 0 || ctl.state().await != CircuitState::Open { leaked_open += 1; println!("OPEN LEAK tb={time_based} p={permitted} fb={fallback}: {n} entered"); }
            } else {
                if n > permitted { excess += 1; println!("EXCESS tb={time_based} p={permitted} fb={fallback}: {n} entered"); }
                if n < permitted { short += 1; println!("short tb={time_based} p={permitted} fb={fallback}: {n} entered, state {:?}", ctl.state().await); }
            }
            gate.add_permits(1000);
            let mut oks = 0; for t in tasks { if t.await.unwrap() { oks += 1; } }
            if round % 5 != 4 { assert_eq!(oks, n); assert_eq!(ctl.state().await, CircuitState::Closed); }
          }
        }
      }
    }
    std::panic::set_hook(prev);
    println!("{rounds} rounds: excess {excess}, short {short}, open leaks {leaked_open}");
    assert_eq!((excess, short, leaked_open), (0, 0, 0));
}
