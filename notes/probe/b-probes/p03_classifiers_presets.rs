//! Probes: DefaultClassifier through Layer::layer / layer_fn / circuit_breaker_builder / for_request,
//! classify_response (Infallible), classifier set twice, classifiers that panic (String / Drop-bomb
//! payload) while closed, presets standard / fast_fail / tolerant at their exact trip points.
use std::convert::Infallible;
use std::sync::atomic::{AtomicUsize, Ordering::SeqCst};
use std::sync::Arc;
use std::time::Duration;
use tower::{service_fn, Layer, Service, ServiceBuilder, ServiceExt};
use tower_resilience_circuitbreaker::{
    circuit_breaker_builder, CircuitBreakerError, CircuitBreakerLayer, CircuitState,
};

#[tokio::test]
async fn default_classifier_all_routes() {
    // four construction routes, same tiny config: window 2, threshold 0.5 => Ok, Err trips
    macro_rules! check { ($svc:expr, $state:expr) => {{
        let mut svc = $svc;
        let r = svc.ready().await.unwrap().call(1).await; assert_eq!(r.unwrap(), 1);
        let r = svc.ready().await.unwrap().call(0).await; assert!(matches!(r, Err(CircuitBreakerError::Inner(()))));
        let r = svc.ready().await.unwrap().call(1).await;
        assert!(matches!(r, Err(CircuitBreakerError::OpenCircuit)), "route {}: {:?}", $state, r);
    }}}
    let inner = || service_fn(|r: u32| async move { if r > 0 { Ok::<u32, ()>(r) } else { Err(()) } });
    let b = || CircuitBreakerLayer::builder().sliding_window_size(2).failure_rate_threshold(0.5);
    check!(ServiceBuilder::new().layer(b().build()).service(inner()), "ServiceBuilder");
    check!(b().build().layer(inner()), "Layer::layer");
    check!(b().build().layer_fn(inner()), "layer_fn");
    check!(circuit_breaker_builder().sliding_window_size(2).failure_rate_threshold(0.5).build().layer(inner()), "circuit_breaker_builder");
    #[allow(deprecated)]
    { check!(b().build().for_request::<u32>().layer(inner()), "for_request"); }
    // two services from ONE layer value: independent circuits? (documented nowhere; record what happens)
    let layer = b().build();
    let mut s1 = layer.layer(inner());
    let s2 = layer.layer(inner());
    let _ = s1.ready().await.unwrap().call(1).await;
    let _ = s1.ready().await.unwrap().call(0).await;
    println!("two services from one layer: s1 {:?} s2 {:?}", s1.state().await, s2.state().await);
    // clone of the layer, then service from the clone
    let l2 = layer.clone();
    let s3 = l2.layer(inner());
    assert_eq!(s3.state().await, CircuitState::Closed);
}

#[tokio::test]
async fn classify_response_infallible() {
    let calls = Arc::new(AtomicUsize::new(0));
    let c = calls.clone();
    let layer = CircuitBreakerLayer::builder()
        .sliding_window_size(4)
        .failure_rate_threshold(0.5)
        .classify_response(|r: &u16| *r >= 500)
        .build();
    let mut svc = layer.layer(service_fn(move |r: u16| { c.fetch_add(1, SeqCst); async move { Ok::<u16, Infallible>(r) } }));
    for (req, _) in [(200u16, 0), (503, 0), (404, 0)] {
        assert_eq!(svc.ready().await.unwrap().call(req).await.unwrap(), req); // response unchanged
        assert_eq!(svc.state().await, CircuitState::Closed);
    }
    assert_eq!(svc.ready().await.unwrap().call(500).await.unwrap(), 500); // 2/4 => trips, response still returned
    assert_eq!(svc.state().await, CircuitState::Open);
    assert!(svc.ready().await.unwrap().call(200).await.is_err());
    assert_eq!(calls.load(SeqCst), 4);
    let m = svc.metrics().await;
    println!("classify_response metrics after trip: {m:?}");
}

#[tokio::test]
async fn classifier_set_twice_last_wins() {
    let layer = CircuitBreakerLayer::builder()
        .sliding_window_size(2)
        .failure_rate_threshold(0.5)
        .classify_response(|_: &u32| true)
        .minimum_number_of_calls(1) // setter after the classifier change must survive
        .failure_classifier(|r: &Result<u32, Infallible>| matches!(r, Ok(7)))
        .build();
    let mut svc = layer.layer_fn(service_fn(|r: u32| async move { Ok::<u32, Infallible>(r) }));
    for r in [1, 2, 3, 4] { svc.ready().await.unwrap().call(r).await.unwrap(); }
    assert_eq!(svc.state().await, CircuitState::Closed); // first classifier would have tripped
    svc.ready().await.unwrap().call(7).await.unwrap();
    assert_eq!(svc.state().await, CircuitState::Open);
}

struct Bomb;
impl Drop for Bomb { fn drop(&mut self) { if !std::thread::panicking() { panic!("bomb") } } }

#[tokio::test]
async fn classifier_panics_while_closed() {
    let prev = std::panic::take_hook();
    std::panic::set_hook(Box::new(|_| {}));
    for bomb in [false, true] {
        let calls = Arc::new(AtomicUsize::new(0));
        let c = calls.clone();
        let layer = CircuitBreakerLayer::builder()
            .sliding_window_size(3)
            .failure_rate_threshold(0.5)
            .failure_classifier(move |r: &Result<u32, ()>| match r {
                Ok(13) => if bomb { std::panic::panic_any(Bomb) } else { panic!("classifier") },
                Ok(_) => false,
                Err(_) => true,
            })
            .build();
        let svc = layer.layer_fn(service_fn(move |r: u32| { c.fetch_add(1, SeqCst); async move { if r > 0 { Ok::<u32, ()>(r) } else { Err(()) } } }));
        let mut s = svc.clone();
        let h = tokio::spawn(async move { s.ready().await.unwrap().call(13).await });
        let e = h.await;
        assert!(e.is_err(), "classifier panic must reach the caller");
        std::mem::forget(e); // Bomb payload: do not drop it here
        // the breaker must not be wedged: state/metrics answer, calls flow, window has 0 records
        let m = tokio::time::timeout(Duration::from_secs(1), svc.metrics()).await.expect("metrics hangs");
        assert_eq!((m.state, m.total_calls), (CircuitState::Closed, 0));
        let mut s = svc.clone();
        for r in [1, 0, 0] {
            let _ = tokio::time::timeout(Duration::from_secs(1), async { s.ready().await.unwrap().call(r).await }).await.expect("call hangs");
        }
        assert_eq!(svc.state().await, CircuitState::Open);
        assert_eq!(calls.load(SeqCst), 4);
    }
    std::panic::set_hook(prev);
}

async fn drive<S>(svc: &mut S, oks: usize, errs: usize)
where S: Service<bool, Response = (), Error = CircuitBreakerError<()>> {
    for _ in 0..oks { svc.ready().await.unwrap().call(true).await.unwrap(); }
    for _ in 0..errs { let _ = svc.ready().await.unwrap().call(false).await; }
}
fn inner() -> impl Service<bool, Response = (), Error = (), Future = impl Send> + Clone + Send {
    service_fn(|ok: bool| async move { if ok { Ok(()) } else { Err(()) } })
}

#[tokio::test]
async fn presets_trip_points() {
    // standard: 50 %, window 100 (minimum unset = 100), permitted 3
    let mut s = CircuitBreakerLayer::standard().build().layer_fn(inner());
    drive(&mut s, 50, 49).await;
    assert_eq!(s.state().await, CircuitState::Closed, "standard: 99 calls");
    drive(&mut s, 0, 1).await;
    assert_eq!(s.state().await, CircuitState::Open, "standard: 50/100");
    let mut s = CircuitBreakerLayer::standard().build().layer_fn(inner());
    drive(&mut s, 51, 49).await;
    assert_eq!(s.state().await, CircuitState::Closed, "standard: 49/100");
    drive(&mut s, 0, 1).await; // slides one success out: 50/100
    assert_eq!(s.state().await, CircuitState::Open, "standard: slid to 50/100");
    // standard, still open after 1 s (30 s wait) and permitted = 3 with a short wait
    let mut s = CircuitBreakerLayer::standard().wait_duration_in_open(Duration::from_millis(20)).build().layer_fn(inner());
    drive(&mut s, 0, 100).await;
    assert_eq!(s.state().await, CircuitState::Open);
    tokio::time::sleep(Duration::from_millis(30)).await;
    drive(&mut s, 2, 0).await;
    assert_eq!(s.state().await, CircuitState::HalfOpen, "standard: 2 of 3 trials");
    drive(&mut s, 1, 0).await;
    assert_eq!(s.state().await, CircuitState::Closed, "standard: 3 trials");
    // fast_fail: 25 %, window 20, permitted 1
    let mut s = CircuitBreakerLayer::fast_fail().build().layer_fn(inner());
    drive(&mut s, 16, 4).await;
    assert_eq!(s.state().await, CircuitState::Closed, "fast_fail 4/20");
    let mut s = CircuitBreakerLayer::fast_fail().wait_duration_in_open(Duration::from_millis(20)).build().layer_fn(inner());
    drive(&mut s, 15, 4).await;
    assert_eq!(s.state().await, CircuitState::Closed, "fast_fail 19 calls");
    drive(&mut s, 0, 1).await;
    assert_eq!(s.state().await, CircuitState::Open, "fast_fail 5/20");
    tokio::time::sleep(Duration::from_millis(30)).await;
    drive(&mut s, 1, 0).await;
    assert_eq!(s.state().await, CircuitState::Closed, "fast_fail 1 trial");
    // tolerant: 75 %, window 200, permitted 5
    let mut s = CircuitBreakerLayer::tolerant().wait_duration_in_open(Duration::from_millis(20)).build().layer_fn(inner());
    drive(&mut s, 51, 149).await;
    assert_eq!(s.state().await, CircuitState::Closed, "tolerant 149/200");
    drive(&mut s, 0, 1).await; // slides a success out: 150/200
    assert_eq!(s.state().await, CircuitState::Open, "tolerant 150/200");
    tokio::time::sleep(Duration::from_millis(30)).await;
    drive(&mut s, 4, 0).await;
    assert_eq!(s.state().await, CircuitState::HalfOpen);
    drive(&mut s, 1, 0).await;
    assert_eq!(s.state().await, CircuitState::Closed);
    // preset then minimum below window: count-based still needs the full window
    let mut s = CircuitBreakerLayer::fast_fail().minimum_number_of_calls(1).build().layer_fn(inner());
    drive(&mut s, 0, 19).await;
    assert_eq!(s.state().await, CircuitState::Closed, "full window needed");
    drive(&mut s, 0, 1).await;
    assert_eq!(s.state().await, CircuitState::Open);
    // default waits really are long: still open after 300 ms
    let mut s = CircuitBreakerLayer::fast_fail().build().layer_fn(inner());
    drive(&mut s, 0, 20).await;
    tokio::time::sleep(Duration::from_millis(300)).await;
    assert!(matches!(s.ready().await.unwrap().call(true).await, Err(CircuitBreakerError::OpenCircuit)));
}
