//! Probe (C04/C03/C09, sequential): extreme configurations against a re-statement of the documented
//! machine. window size {1,3,usize::MAX}, minimum {unset,0,1,5,usize::MAX}, thresholds {0, 5e-324, 0.5,
//! 1-2^-53, 1}, permitted {1,2,usize::MAX}, wait {0, 1 ns, Duration::MAX}, slow threshold {none, 0 (every
//! call slow), Duration::MAX}, slow rate {0.5, 1.0}, time-based window {0, 1 ns, Duration::MAX}.
//! Also window size 0 (no judgement, must not panic) and thresholds NaN / 2.0 / -1.0 (must not panic).
use std::sync::atomic::{AtomicUsize, Ordering::SeqCst};
use std::sync::Arc;
use std::time::Duration;
use tower::{service_fn, Service, ServiceExt};
use tower_resilience_circuitbreaker::{CircuitBreakerError, CircuitBreakerLayer, CircuitState, SlidingWindowType};

#[derive(Clone, Copy, Debug, PartialEq)]
enum Thr { Zero, Tiny, Half, Below1, One }
impl Thr {
    fn val(self) -> f64 { match self { Thr::Zero => 0.0, Thr::Tiny => f64::from_bits(1), Thr::Half => 0.5, Thr::Below1 => 1.0 - f64::EPSILON / 2.0, Thr::One => 1.0 } }
    fn reached(self, k: usize, n: usize) -> bool { // k/n >= threshold, n > 0, exact
        match self { Thr::Zero => true, Thr::Tiny => k >= 1, Thr::Half => 2 * k >= n, Thr::Below1 | Thr::One => k == n }
    }
}
#[derive(Clone, Copy, Debug)]
struct Cfg { time_based: Option<Duration>, wsize: usize, min: Option<usize>, thr: Thr, permitted: usize, wait: Duration,
             slow: Option<Duration>, sthr: Thr }
#[derive(Clone, Debug, PartialEq)]
enum St { Closed(Vec<(bool, bool)>), Open, HalfOpen(usize) }

struct Rng(u64);
impl Rng { fn next(&mut self, n: u64) -> u64 { self.0 = self.0.wrapping_mul(6364136223846793005).wrapping_add(1442695040888963407); (self.0 >> 33) % n } }

fn trips(c: &Cfg, rec: &[(bool, bool)]) -> bool {
    let n = rec.len();
    let min = c.min.unwrap_or(c.wsize);
    if n < min { return false; }
    let win: &[(bool, bool)] = match c.time_based {
        None => { if n < c.wsize { return false; } &rec[n - c.wsize.min(n)..] }
        Some(d) if d == Duration::MAX => rec,
        Some(_) => &[], // 0 / 1 ns windows: every record is too old when judged
    };
    // time based: "minimum calls" is judged on the calls inside the window
    if c.time_based.is_some() && win.len() < min { return false; }
    if win.is_empty() { return false; }
    let f = win.iter().filter(|o| o.0).count();
    let s = win.iter().filter(|o| o.1).count();
    c.thr.reached(f, win.len()) || (c.slow.is_some() && c.sthr.reached(s, win.len()))
}

async fn run(c: Cfg, seed: u64, len: usize) -> Result<(), String> {
    let calls = Arc::new(AtomicUsize::new(0));
    let cc = calls.clone();
    let mut b = CircuitBreakerLayer::builder()
        .failure_rate_threshold(c.thr.val()).sliding_window_size(c.wsize)
        .permitted_calls_in_half_open(c.permitted).wait_duration_in_open(c.wait).slow_call_rate_threshold(c.sthr.val());
    if let Some(d) = c.time_based { b = b.sliding_window_type(SlidingWindowType::TimeBased).sliding_window_duration(d); }
    if let Some(m) = c.min { b = b.minimum_number_of_calls(m); }
    if let Some(s) = c.slow { b = b.slow_call_duration_threshold(s); }
    let mut svc = b.build().layer_fn(service_fn(move |ok: bool| { cc.fetch_add(1, SeqCst); async move { if ok { Ok(()) } else { Err(()) } } }));
    let mut st = St::Closed(vec![]);
    let mut rng = Rng(seed);
    let slow = c.slow == Some(Duration::ZERO);
    for step in 0..len {
        let op = rng.next(20);
        let before = calls.load(SeqCst);
        let mut expect_invoked = false;
        let mut expect_reject = false;
        let desc;
        match op {
            0 => { svc.force_open().await; st = St::Open; desc = "force_open".to_string(); }
            1 => { svc.force_closed().await; if !matches!(st, St::Closed(_)) { st = St::Closed(vec![]); } desc = "force_closed".into(); }
            2 => { svc.reset().await; st = St::Closed(vec![]); desc = "reset".into(); }
            _ => {
                let ok = rng.next(3) != 0;
                desc = format!("call ok={ok}");
                // admission
                if st == St::Open {
                    if c.wait == Duration::MAX { expect_reject = true; } else { st = St::HalfOpen(0); }
                }
                if !expect_reject {
                    expect_invoked = true;
                    st = match st {
                        St::Closed(mut rec) => { rec.push((!ok, slow)); if trips(&c, &rec) { St::Open } else { St::Closed(rec) } }
                        St::HalfOpen(s) => if !ok { St::Open } else if s + 1 >= c.permitted { St::Closed(vec![]) } else { St::HalfOpen(s + 1) },
                        St::Open => unreachable!(),
                    };
                }
                let r = tokio::time::timeout(Duration::from_secs(2), async { svc.ready().await.unwrap().call(ok).await }).await
                    .map_err(|_| format!("{c:?} seed {seed} step {step}: call hangs"))?;
                let rejected = matches!(r, Err(CircuitBreakerError::OpenCircuit));
                if rejected != expect_reject { return Err(format!("{c:?} seed {seed} step {step} {desc}: rejected={rejected}, machine says {expect_reject}")); }
            }
        }
        let invoked = calls.load(SeqCst) - before;
        if invoked != expect_invoked as usize { return Err(format!("{c:?} seed {seed} step {step} {desc}: inner invoked {invoked}x, machine says {expect_invoked}")); }
        let want = match st { St::Closed(_) => CircuitState::Closed, St::Open => CircuitState::Open, St::HalfOpen(_) => CircuitState::HalfOpen };
        let m = svc.metrics().await;
        let got = (svc.state().await, svc.state_sync(), svc.is_open(), m.state);
        if got != (want, want, want == CircuitState::Open, want) {
            return Err(format!("{c:?} seed {seed} step {step} {desc}: views {got:?}, machine {want:?} ({st:?})"));
        }
        if let (St::Closed(rec), None) = (&st, c.time_based) {
            let w = &rec[rec.len() - c.wsize.min(rec.len())..];
            let f = w.iter().filter(|o| o.0).count();
            if (m.total_calls, m.failure_count, m.success_count) != (w.len(), f, w.len() - f) {
                return Err(format!("{c:?} seed {seed} step {step} {desc}: snapshot {m:?} vs window {w:?}"));
            }
        }
    }
    Ok(())
}

#[tokio::test]
async fn extremes_against_machine() {
    let mut n = 0; let mut bad = Vec::new();
    let windows: Vec<(Option<Duration>, usize)> = vec![(None, 1), (None, 3), (None, usize::MAX),
        (Some(Duration::ZERO), 3), (Some(Duration::from_nanos(1)), 3), (Some(Duration::MAX), 3), (Some(Duration::MAX), usize::MAX)];
    for (tb, wsize) in windows {
      for min in [None, Some(0), Some(1), Some(5), Some(usize::MAX)] {
        for thr in [Thr::Zero, Thr::Tiny, Thr::Half, Thr::Below1, Thr::One] {
          for permitted in [1, 2, usize::MAX] {
            for wait in [Duration::ZERO, Duration::from_nanos(1), Duration::MAX] {
              for (slow, sthr) in [(None, Thr::One), (Some(Duration::ZERO), Thr::One), (Some(Duration::ZERO), Thr::Half), (Some(Duration::MAX), Thr::Zero), (Some(Duration::MAX), Thr::Half)] {
                // (Some(MAX), Zero): slow detection enabled, nobody is slow, slow-rate threshold 0: 0/n >= 0 trips
                let c = Cfg { time_based: tb, wsize, min, thr, permitted, wait, slow, sthr };
                for seed in 0..2u64 {
                    n += 1;
                    if let Err(e) = run(c, seed * 7919 + n as u64, 40).await { if bad.len() < 15 { bad.push(e); } else { bad.push(String::new()); } }
                }
              }
            }
          }
        }
      }
    }
    println!("{n} histories, {} mismatches", bad.len());
    for b in bad.iter().filter(|b| !b.is_empty()) { println!("  {b}"); }
    assert!(bad.is_empty());
}

#[tokio::test]
async fn absurd_values_do_not_panic() {
    for thr in [f64::NAN, 2.0, -1.0, f64::INFINITY, f64::NEG_INFINITY] {
        for wsize in [0usize, 1] {
            for min in [Some(0usize), None] {
                let mut b = CircuitBreakerLayer::builder().failure_rate_threshold(thr).slow_call_rate_threshold(thr)
                    .slow_call_duration_threshold(Duration::ZERO).sliding_window_size(wsize).permitted_calls_in_half_open(0).wait_duration_in_open(Duration::ZERO);
                if let Some(m) = min { b = b.minimum_number_of_calls(m); }
                let mut svc = b.build().layer_fn(service_fn(|ok: bool| async move { if ok { Ok(()) } else { Err(()) } }));
                let mut states = vec![];
                for ok in [true, false, false, true, true] {
                    let _ = tokio::time::timeout(Duration::from_secs(1), async { svc.ready().await.unwrap().call(ok).await }).await.expect("hang");
                    states.push(svc.state().await);
                }
                println!("thr {thr} wsize {wsize} min {min:?}: {states:?}");
            }
        }
    }
}
