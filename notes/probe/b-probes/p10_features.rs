//! Probes with the crate features on. `metrics`: a normal recorder must not change anything (and what do
//! the exported gauges say after a full cycle?); a recorder that panics (as in the C11 fix 279420e).
//! `tracing`: a subscriber at TRACE level. `serde`: nothing to drive (derive only).
#![cfg(any(feature = "metrics", feature = "tracing"))]
use std::sync::atomic::{AtomicUsize, Ordering::SeqCst};
use std::sync::Arc;
use std::time::Duration;
use tower::{service_fn, Service, ServiceExt};
use tower_resilience_circuitbreaker::{CircuitBreakerError, CircuitBreakerLayer, CircuitState};

async fn cycle(name: &str) -> Vec<String> {
    let calls = Arc::new(AtomicUsize::new(0));
    let c = calls.clone();
    let mut svc = CircuitBreakerLayer::builder().name(name).sliding_window_size(2).failure_rate_threshold(0.5)
        .wait_duration_in_open(Duration::from_millis(20)).permitted_calls_in_half_open(2)
        .slow_call_duration_threshold(Duration::from_millis(10)).build()
        .layer_fn(service_fn(move |r: u32| { c.fetch_add(1, SeqCst); async move { if r == 3 { tokio::time::sleep(Duration::from_millis(15)).await; } if r % 2 == 1 { Ok::<u32, String>(r) } else { Err(format!("e{r}")) } } }));
    let mut log = vec![];
    for (r, sleep) in [(1, 0), (2, 0), (5, 0), (7, 30), (3, 0), (9, 0), (4, 0), (6, 30), (8, 0), (1, 0)] {
        if sleep > 0 { tokio::time::sleep(Duration::from_millis(sleep)).await; }
        let res = svc.ready().await.unwrap().call(r).await;
        log.push(format!("{r}:{res:?}:{:?}:{:?}:{}", svc.state().await, svc.state_sync(), calls.load(SeqCst)));
    }
    log
}

#[cfg(feature = "metrics")]
mod m {
    use super::*;
    use metrics::{Counter, Gauge, Histogram, Key, KeyName, Metadata, Recorder, SharedString, Unit};
    use metrics_util::debugging::{DebugValue, DebuggingRecorder};

    #[tokio::test]
    async fn normal_recorder_and_gauges() {
        let reference = cycle("ref").await; // no recorder installed on this thread
        let rec = DebuggingRecorder::new();
        let snap = rec.snapshotter();
        let guard = metrics::set_default_local_recorder(&rec);
        let with = cycle("ref").await;
        drop(guard);
        for l in &with { println!("  {l}"); }
        assert_eq!(reference, with, "a metrics recorder changed outcomes");
        let mut gauges = vec![];
        for (k, _, _, v) in snap.snapshot().into_vec() {
            let labels: Vec<String> = k.key().labels().map(|l| format!("{}={}", l.key(), l.value())).collect();
            if let DebugValue::Gauge(g) = v { gauges.push(format!("{} {{{}}} = {}", k.key().name(), labels.join(","), g)); }
            else if let DebugValue::Counter(c) = v { println!("  counter {} {{{}}} = {c}", k.key().name(), labels.join(",")); }
        }
        gauges.sort();
        println!("final state {:?}; gauges:", with.last());
        for g in &gauges { println!("  {g}"); }
    }

    struct PanickyRecorder(&'static str);
    impl Recorder for PanickyRecorder {
        fn describe_counter(&self, _: KeyName, _: Option<Unit>, _: SharedString) {}
        fn describe_gauge(&self, _: KeyName, _: Option<Unit>, _: SharedString) {}
        fn describe_histogram(&self, _: KeyName, _: Option<Unit>, _: SharedString) {}
        fn register_counter(&self, k: &Key, _: &Metadata<'_>) -> Counter { if k.name() == self.0 { panic!("recorder panics on {}", self.0) } Counter::noop() }
        fn register_gauge(&self, k: &Key, _: &Metadata<'_>) -> Gauge { if k.name() == self.0 { panic!("recorder panics on {}", self.0) } Gauge::noop() }
        fn register_histogram(&self, k: &Key, _: &Metadata<'_>) -> Histogram { if k.name() == self.0 { panic!("recorder panics on {}", self.0) } Histogram::noop() }
    }

    #[tokio::test]
    async fn panicking_recorder() {
        let prev = std::panic::take_hook();
        std::panic::set_hook(Box::new(|_| {}));
        for metric in ["circuitbreaker_transitions_total", "circuitbreaker_state", "circuitbreaker_calls_total"] {
            let rec = PanickyRecorder(metric);
            let _g = metrics::set_default_local_recorder(&rec);
            let calls = Arc::new(AtomicUsize::new(0));
            let c = calls.clone();
            let svc = CircuitBreakerLayer::builder().sliding_window_size(2).failure_rate_threshold(0.5)
                .wait_duration_in_open(Duration::from_secs(3600)).build()
                .layer_fn(service_fn(move |_: u32| { c.fetch_add(1, SeqCst); async move { Err::<u32, ()>(()) } }));
            let mut outcomes = vec![];
            for i in 0..6 {
                let mut s = svc.clone();
                let r = futures::FutureExt::catch_unwind(std::panic::AssertUnwindSafe(async move { s.ready().await.unwrap().call(i).await })).await;
                outcomes.push(match r { Ok(Err(CircuitBreakerError::Inner(()))) => "inner-err", Ok(Err(CircuitBreakerError::OpenCircuit)) => "open", Ok(Ok(_)) => "ok", Err(_) => "PANIC" });
            }
            let m = svc.metrics().await;
            println!("recorder panics on {metric}: outcomes {outcomes:?}; state {:?}/{:?}; inner calls {}; snapshot total {} failures {}",
                m.state, svc.state_sync(), calls.load(SeqCst), m.total_calls, m.failure_count);
        }
        std::panic::set_hook(prev);
    }
}

#[cfg(feature = "tracing")]
#[tokio::test]
async fn tracing_subscriber_trace_level() {
    let reference = cycle("t").await;
    let sub = tracing_subscriber::fmt().with_max_level(tracing::Level::TRACE).with_writer(std::io::sink).finish();
    let _g = tracing::subscriber::set_default(sub);
    let with = cycle("t").await;
    assert_eq!(reference, with);
    assert!(with.iter().any(|l| l.contains("Open")));
}
