#!/usr/bin/env python3
"""C10 improvement rounds: the hand-written rewrites of tower-resilience-cache tried against the C10 check (v_* functions;
H = property-preserving, B = property-breaking). Needs a scratch copy: /tmp/cache-scratch/{repo (rsync of /repo without target/.git),
hsrc (copy of /verif/harness with Cargo.toml paths rewritten), orig-src (pristine crates/tower-resilience-cache/src)}.
try.py <variant> [seeds...]: apply a hand-written rewrite of the cache crate to the scratch copy, build the c10 driver
against it, run quick scripts through implementation + model + monitor."""
import sys, os, shutil, subprocess, random, time
sys.path.insert(0, '/verif/gen')
import importlib
g = importlib.import_module('c10')
BASE = '/tmp/cache-scratch'
SRC = BASE + '/repo/crates/tower-resilience-cache/src'


def sub(path, old, new, count=1):
    s = open(path).read()
    assert s.count(old) >= 1, (path, old[:60])
    s = s.replace(old, new, count)
    open(path, 'w').write(s)


def v_none():
    pass


def v_sweep():
    """H1: CacheStore::insert first removes every entry past its TTL"""
    ev = SRC + '/eviction.rs'
    sub(ev, "    /// Returns the current number of entries.\n    fn len(&self) -> usize;",
        "    /// Removes every entry for which `dead` holds.\n    fn sweep(&mut self, dead: &dyn Fn(&V) -> bool);\n\n    /// Returns the current number of entries.\n    fn len(&self) -> usize;")
    sub(ev, "impl<K: Hash + Eq + Send, V: Send> EvictionStore<K, V> for LruStore<K, V> {",
        "impl<K: Hash + Eq + Send + Clone, V: Send> EvictionStore<K, V> for LruStore<K, V> {\n    fn sweep(&mut self, dead: &dyn Fn(&V) -> bool) {\n        let ks: Vec<K> = self.cache.iter().filter(|(_, v)| dead(v)).map(|(k, _)| k.clone()).collect();\n        for k in ks { self.cache.pop(&k); }\n    }")
    sub(ev, "impl<K: Hash + Eq + Clone + Send, V: Send> EvictionStore<K, V> for LfuStore<K, V> {",
        "impl<K: Hash + Eq + Clone + Send, V: Send> EvictionStore<K, V> for LfuStore<K, V> {\n    fn sweep(&mut self, dead: &dyn Fn(&V) -> bool) {\n        let ks: Vec<K> = self.data.iter().filter(|(_, v)| dead(v)).map(|(k, _)| k.clone()).collect();\n        for k in ks { self.data.remove(&k); self.frequencies.remove(&k); }\n    }")
    sub(ev, "impl<K: Hash + Eq + Clone + Send, V: Send> EvictionStore<K, V> for FifoStore<K, V> {",
        "impl<K: Hash + Eq + Clone + Send, V: Send> EvictionStore<K, V> for FifoStore<K, V> {\n    fn sweep(&mut self, dead: &dyn Fn(&V) -> bool) {\n        let ks: Vec<K> = self.data.iter().filter(|(_, v)| dead(v)).map(|(k, _)| k.clone()).collect();\n        for k in ks { self.data.remove(&k); self.order.retain(|x| x != &k); }\n    }")
    sub(SRC + '/store.rs', "        let entry = CacheEntry::new(value);\n",
        "        let ttl = self.ttl;\n        self.store.sweep(&|e: &CacheEntry<V>| e.is_expired(ttl));\n        let entry = CacheEntry::new(value);\n")


def v_lazyfifo():
    """H2: FIFO with correct lazy deletion (generation numbers): remove() leaves the queue slot, eviction skips dead slots"""
    ev = SRC + '/eviction.rs'
    s = open(ev).read()
    i = s.index("/// FIFO (First In, First Out) cache storage.")
    j = s.index("#[cfg(test)]")
    new = '''/// FIFO (First In, First Out) cache storage.
pub(crate) struct FifoStore<K, V> {
    data: HashMap<K, (V, u64)>,
    order: VecDeque<(K, u64)>,
    next: u64,
    capacity: usize,
}

impl<K: Hash + Eq + Clone, V> FifoStore<K, V> {
    pub(crate) fn new(capacity: usize) -> Self {
        Self {
            data: HashMap::with_capacity(capacity),
            order: VecDeque::with_capacity(capacity),
            next: 0,
            capacity: capacity.max(1),
        }
    }
}

impl<K: Hash + Eq + Clone + Send, V: Send> EvictionStore<K, V> for FifoStore<K, V> {
    fn get(&mut self, key: &K) -> Option<&V> {
        self.data.get(key).map(|(v, _)| v)
    }

    fn insert(&mut self, key: K, value: V) -> Option<(K, V)> {
        if let Some(slot) = self.data.get_mut(&key) {
            let old = std::mem::replace(&mut slot.0, value);
            return Some((key, old));
        }
        let mut evicted = None;
        if self.data.len() >= self.capacity {
            while let Some((k, g)) = self.order.pop_front() {
                if self.data.get(&k).map_or(false, |(_, g2)| *g2 == g) {
                    let (v, _) = self.data.remove(&k).unwrap();
                    evicted = Some((k, v));
                    break;
                }
            }
        }
        let g = self.next;
        self.next += 1;
        self.data.insert(key.clone(), (value, g));
        self.order.push_back((key, g));
        evicted
    }

    fn remove(&mut self, key: &K) -> Option<V> {
        self.data.remove(key).map(|(v, _)| v)
    }

    fn len(&self) -> usize {
        self.data.len()
    }

    fn clear(&mut self) {
        self.data.clear();
        self.order.clear();
    }
}

'''
    open(ev, 'w').write(s[:i] + new + s[j:])


def v_lfu_hits_only():
    """H3a: LFU counts only lookups; an overwrite does not bump the count"""
    sub(SRC + '/eviction.rs', "            let old_value = self.data.insert(key.clone(), value)?;\n            *self.frequencies.entry(key.clone()).or_insert(0) += 1;\n",
        "            let old_value = self.data.insert(key.clone(), value)?;\n")


def v_lfu_reset():
    """H3b: LFU count restarts at 1 when a key is overwritten"""
    sub(SRC + '/eviction.rs', "            let old_value = self.data.insert(key.clone(), value)?;\n            *self.frequencies.entry(key.clone()).or_insert(0) += 1;\n",
        "            let old_value = self.data.insert(key.clone(), value)?;\n            self.frequencies.insert(key.clone(), 1);\n")


def v_noevents():
    """H4: Hit and Miss events no longer emitted"""
    sub(SRC + '/lib.rs', "            self.config.event_listeners.emit(&event);\n            return Box::pin", "            let _ = &event;\n            return Box::pin")
    sub(SRC + '/lib.rs', "        self.config.event_listeners.emit(&miss_event);\n", "        let _ = &miss_event;\n")


def v_lru_update_keeps_place():
    """H5: LRU: overwriting a present key does not count as a use"""
    sub(SRC + '/eviction.rs', "        self.cache.push(key, value)\n",
        "        if let Some(v) = self.cache.peek_mut(&key) {\n            let old = std::mem::replace(v, value);\n            return Some((key, old));\n        }\n        self.cache.push(key, value)\n")


def v_fifo_update_moves():
    """H6: FIFO: overwriting a present key moves it to the back of the queue"""
    sub(SRC + '/eviction.rs', "        // If key exists, update it without changing order\n        if self.data.contains_key(&key) {\n            let old_value = self.data.insert(key.clone(), value)?;\n",
        "        if self.data.contains_key(&key) {\n            let old_value = self.data.insert(key.clone(), value)?;\n            self.order.retain(|k| k != &key);\n            self.order.push_back(key.clone());\n")


def v_ttl_ge():
    """H7: expired when elapsed >= ttl"""
    sub(SRC + '/store.rs', "self.inserted_at.elapsed() > ttl", "self.inserted_at.elapsed() >= ttl")


def v_sampled_lfu():
    """B1: LFU victim searched among the first 8 entries only"""
    sub(SRC + '/eviction.rs', "            .iter()\n            .min_by_key", "            .iter()\n            .take(8)\n            .min_by_key")


def v_ttl_millis():
    """B2: TTL test truncated to milliseconds"""
    sub(SRC + '/store.rs', "self.inserted_at.elapsed() > ttl", "self.inserted_at.elapsed().as_millis() > ttl.as_millis()")


def v_fastpath():
    """B3: instance-local one-entry fast path (plain field, cloned as-is)"""
    lib = SRC + '/lib.rs'
    sub(lib, "    store: Arc<Mutex<CacheStore<K, Resp>>>,\n}\n\nimpl<S, Req, K, Resp> Cache<S, Req, K, Resp>",
        "    store: Arc<Mutex<CacheStore<K, Resp>>>,\n    last: Option<(K, Resp)>,\n}\n\nimpl<S, Req, K, Resp> Cache<S, Req, K, Resp>")
    s = open(lib).read()
    s = s.replace("            config,\n            store,\n        }", "            config,\n            store,\n            last: None,\n        }")
    s = s.replace("impl<S, Req, K, Resp> Clone for Cache<S, Req, K, Resp>\nwhere\n    S: Clone,\n{",
                  "impl<S, Req, K, Resp> Clone for Cache<S, Req, K, Resp>\nwhere\n    S: Clone,\n    K: Clone,\n    Resp: Clone,\n{")
    s = s.replace("            store: Arc::clone(&self.store),\n        }\n    }\n}", "            store: Arc::clone(&self.store),\n            last: self.last.clone(),\n        }\n    }\n}", 1)
    s = s.replace("        // Check cache first\n", "        if let Some((k, v)) = &self.last {\n            if *k == key {\n                let v = v.clone();\n                return Box::pin(async move { Ok(v) });\n            }\n        }\n        // Check cache first\n")
    s = s.replace("        if let Some(response) = cached {\n", "        if let Some(response) = cached {\n            self.last = Some((key.clone(), response.clone()));\n")
    open(lib, 'w').write(s)


def v_lru_sampled():
    """B4: LRU capacity check off by one for large stores (evicts only when len > cap) -- size bound"""
    sub(SRC + '/eviction.rs', "        self.cache.push(key, value)\n",
        "        if self.cache.len() >= 8 && self.cache.cap().get() < usize::MAX - 1 && !self.cache.contains(&key) && self.cache.len() == self.cache.cap().get() {\n            let c = self.cache.cap().get();\n            self.cache.resize(NonZeroUsize::new(c + 1).unwrap());\n        }\n        self.cache.push(key, value)\n")


def v_fifo_wrong_after_8():
    """B5: FIFO evicts the newest entry when the queue is longer than 8"""
    sub(SRC + '/eviction.rs', "            self.order.pop_front().and_then(|old_key| {",
        "            (if self.order.len() > 8 { self.order.pop_back() } else { self.order.pop_front() }).and_then(|old_key| {")


YIELD = """
struct YieldOnce(bool);
impl std::future::Future for YieldOnce {
    type Output = ();
    fn poll(mut self: std::pin::Pin<&mut Self>, cx: &mut Context<'_>) -> Poll<()> {
        if self.0 { Poll::Ready(()) } else { self.0 = true; cx.waker().wake_by_ref(); Poll::Pending }
    }
}
"""


def v_yield_after_insert():
    """H8 (review 2, D4): the miss future yields once between the insert and returning"""
    lib = SRC + '/lib.rs'
    sub(lib, "            if was_evicted {\n", "            YieldOnce(false).await;\n            if was_evicted {\n")
    open(lib, 'a').write(YIELD)


def v_yield_before_insert():
    """H9: the miss future yields once after the inner call completed, before the insert"""
    lib = SRC + '/lib.rs'
    sub(lib, "            // Store successful response in cache\n", "            YieldOnce(false).await;\n            // Store successful response in cache\n")
    open(lib, 'a').write(YIELD)


def v_sampled_lfu64():
    """B6 (review 2, D1): LFU victim searched among the first 64 entries only"""
    sub(SRC + '/eviction.rs', "            .iter()\n            .min_by_key", "            .iter()\n            .take(64)\n            .min_by_key")


def v_sampled_lfu128():
    """B6b: LFU victim searched among the first 128 entries only"""
    sub(SRC + '/eviction.rs', "            .iter()\n            .min_by_key", "            .iter()\n            .take(128)\n            .min_by_key")


def v_lfu_u8():
    """B7 (review 2, D3): LFU counters are u8 and wrap"""
    ev = SRC + '/eviction.rs'
    s = open(ev).read()
    s = s.replace("frequencies: HashMap<K, usize>,", "frequencies: HashMap<K, u8>,")
    s = s.replace("*self.frequencies.entry(key.clone()).or_insert(0) += 1;", "{ let c = self.frequencies.entry(key.clone()).or_insert(0); *c = c.wrapping_add(1); }")
    open(ev, 'w').write(s)


def v_lfu_sat15():
    """B7b: LFU counters saturate at 15"""
    ev = SRC + '/eviction.rs'
    s = open(ev).read()
    s = s.replace("*self.frequencies.entry(key.clone()).or_insert(0) += 1;", "{ let c = self.frequencies.entry(key.clone()).or_insert(0); *c = (*c + 1).min(15); }")
    open(ev, 'w').write(s)


def v_ttl_micros():
    """B8 (review 2, D2): TTL test truncated to microseconds"""
    sub(SRC + '/store.rs', "self.inserted_at.elapsed() > ttl", "self.inserted_at.elapsed().as_micros() > ttl.as_micros()")


def _reserve(front):
    ev = SRC + '/eviction.rs'
    sub(ev, "    /// Returns the current number of entries.\n    fn len(&self) -> usize;",
        "    /// Makes room for one entry if the store is full.\n    fn make_room(&mut self) {}\n\n    /// Returns the current number of entries.\n    fn len(&self) -> usize;")
    sub(ev, "impl<K: Hash + Eq + Clone + Send, V: Send> EvictionStore<K, V> for FifoStore<K, V> {",
        "impl<K: Hash + Eq + Clone + Send, V: Send> EvictionStore<K, V> for FifoStore<K, V> {\n    fn make_room(&mut self) {\n        if self.data.len() >= self.capacity {\n            if let Some(k) = self.order.%s() { self.data.remove(&k); }\n        }\n    }" % ("pop_front" if front else "pop_back"))
    sub(SRC + '/store.rs', "    /// Returns the current number of entries in the cache.\n", "    pub(crate) fn make_room(&mut self) {\n        self.store.make_room();\n    }\n\n    /// Returns the current number of entries in the cache.\n")
    sub(SRC + '/lib.rs', "        let future = self.inner.call(req);\n        let store = Arc::clone(&self.store);", "        self.store.lock().unwrap().make_room();\n        let future = self.inner.call(req);\n        let store = Arc::clone(&self.store);")


def v_reserve_right():
    """H10 (review 2, A1): FIFO makes room in call() at miss time, evicting the first-in entry"""
    _reserve(True)


def v_reserve_wrong():
    """B9 (review 2, A1): FIFO makes room in call() at miss time, evicting the NEWEST entry"""
    _reserve(False)


VARIANTS = {k[2:]: v for k, v in globals().items() if k.startswith('v_')}


def run(exe, scs):
    inp = "\n".join(" ".join(map(str, s)) for s in scs) + "\n"
    r = subprocess.run([exe], input=inp, capture_output=True, text=True)
    lines = r.stdout.strip("\n").split("\n")
    out = [[int(x) for x in l.split()] for l in lines]
    while len(out) < len(scs):
        out.append([-998])
    return out


def main():
    name = sys.argv[1]
    seeds = [int(x) for x in sys.argv[2:]] or [0]
    shutil.rmtree(SRC)
    shutil.copytree(BASE + '/orig-src', SRC)
    for f in os.listdir(SRC):
        os.utime(os.path.join(SRC, f))
    VARIANTS[name]()
    r = subprocess.run("cargo build --release --offline --bin c10", shell=True, cwd=BASE + '/hsrc',
                       env=dict(os.environ, CARGO_TARGET_DIR=BASE + '/target', CARGO_NET_OFFLINE="true"),
                       capture_output=True, text=True)
    if r.returncode != 0:
        print(r.stderr[-3000:])
        sys.exit(1)
    for seed in seeds:
        rng = random.Random(seed)
        scripts = [list(s) for s in g.corpus()] + [list(s) for s in g.generate(rng, os.environ.get('TIER', 'quick'))]
        impl = run(BASE + '/target/release/c10', scripts)
        modl = run('/verif/ocaml/_build/C10/driver', [g.model_input(s, a) for s, a in zip(scripts, impl)])
        mm, mf, first = 0, 0, None
        msgs = {}
        for s, a, b in zip(scripts, impl, modl):
            if a != b:
                mm += 1
            m = g.monitor(s, a)
            if m:
                mf += 1
                key = m.split(":", 1)[1][:70] if ":" in m else m[:70]
                msgs[key] = msgs.get(key, 0) + 1
                if first is None or len(s) < len(first[0]):
                    first = (s, m)
        print("%s seed %d: %d scripts, %d mismatches, %d monitor failures" % (name, seed, len(scripts), mm, mf))
        for k, v in sorted(msgs.items(), key=lambda kv: -kv[1])[:6]:
            print("    %5d  %s" % (v, k))
        if first:
            print("    shortest:", first[1], "\n    ", first[0])


main()
