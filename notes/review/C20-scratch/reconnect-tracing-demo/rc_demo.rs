//! Does a panicking on_state_change / on_reconnect callback change the outcome of a call through
//! the real ReconnectService (feature `tracing`)?
use std::fmt;
use std::sync::atomic::{AtomicUsize, Ordering};
use std::sync::Arc;
use std::task::{Context, Poll};
use std::time::Duration;
use tower::{Layer, Service};
use tower_resilience_reconnect::{ReconnectConfig, ReconnectLayer, ReconnectPolicy};
use verif_harness::*;

#[derive(Debug, Clone)]
struct E(&'static str);
impl fmt::Display for E {
    fn fmt(&self, f: &mut fmt::Formatter<'_>) -> fmt::Result {
        write!(f, "{}", self.0)
    }
}
impl std::error::Error for E {}

#[derive(Clone)]
struct Inner {
    calls: Arc<AtomicUsize>,
    fail_first: usize,
}
impl Service<i64> for Inner {
    type Response = i64;
    type Error = E;
    type Future = std::future::Ready<Result<i64, E>>;
    fn poll_ready(&mut self, _cx: &mut Context<'_>) -> Poll<Result<(), E>> {
        Poll::Ready(Ok(()))
    }
    fn call(&mut self, req: i64) -> Self::Future {
        let n = self.calls.fetch_add(1, Ordering::SeqCst) + 1;
        if n <= self.fail_first {
            std::future::ready(Err(E("connection reset")))
        } else {
            std::future::ready(Ok(req * 10))
        }
    }
}

/// which: 0 no callbacks, 1 well-behaved callbacks, 2 panicking on_state_change, 3 panicking on_reconnect
fn run(which: u8, fail_first: usize) -> String {
    let rt = paused_rt();
    rt.block_on(async move {
        let seen = Arc::new(AtomicUsize::new(0));
        let mut b = ReconnectConfig::builder()
            .policy(ReconnectPolicy::fixed(Duration::from_millis(1)))
            .max_attempts(3)
            .retry_on_reconnect(true);
        let (s1, s2) = (seen.clone(), seen.clone());
        b = match which {
            0 => b,
            1 => b
                .on_state_change(move |_, _| {
                    s1.fetch_add(1, Ordering::SeqCst);
                })
                .on_reconnect(move |_| {
                    s2.fetch_add(1, Ordering::SeqCst);
                }),
            2 => b
                .on_state_change(move |_, _| {
                    s1.fetch_add(1, Ordering::SeqCst);
                    panic!("state-change observer panics")
                })
                .on_reconnect(move |_| {
                    s2.fetch_add(1, Ordering::SeqCst);
                }),
            _ => b
                .on_state_change(move |_, _| {
                    s1.fetch_add(1, Ordering::SeqCst);
                })
                .on_reconnect(move |_| {
                    s2.fetch_add(1, Ordering::SeqCst);
                    panic!("reconnect observer panics")
                }),
        };
        let calls = Arc::new(AtomicUsize::new(0));
        let mut svc = ReconnectLayer::new(b.build()).layer(Inner { calls: calls.clone(), fail_first });
        let w = futures::task::noop_waker();
        let mut cx = Context::from_waker(&w);
        assert!(matches!(svc.poll_ready(&mut cx), Poll::Ready(Ok(()))));
        let fut = svc.call(7);
        let mut m = Manual::new(fut);
        let mut steps = 0;
        while !m.poll() {
            steps += 1;
            if steps > 100 {
                return format!("HANG inner_calls={} callbacks={}", calls.load(Ordering::SeqCst), seen.load(Ordering::SeqCst));
            }
            settle().await;
            if !m.woken() {
                advance_ms(1).await;
            }
        }
        let out = if m.panicked {
            "PANIC (unwound out of ReconnectFuture::poll)".to_string()
        } else {
            match m.done.take() {
                Some(Ok(v)) => format!("Ok({})", v),
                Some(Err(e)) => format!("Err({})", e),
                None => "none".into(),
            }
        };
        format!("{} inner_calls={} callbacks_run={}", out, calls.load(Ordering::SeqCst), seen.load(Ordering::SeqCst))
    })
}

fn main() {
    std::panic::set_hook(Box::new(|_| {}));
    for fail_first in [0usize, 1] {
        for which in 0..4u8 {
            println!("fail_first={} callbacks={} -> {}", fail_first, ["none", "well-behaved", "on_state_change panics", "on_reconnect panics"][which as usize], run(which, fail_first));
        }
    }
}
