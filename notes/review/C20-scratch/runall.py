import sys, random, hashlib, subprocess, importlib.util
spec=importlib.util.spec_from_file_location('g','/verif/gen/c20.py'); g=importlib.util.module_from_spec(spec); spec.loader.exec_module(g)
seed=0; pid='C20'
rng=random.Random(seed*1000003+int(hashlib.sha1(pid.encode()).hexdigest()[:8],16))
scripts=[list(s) for s in g.corpus()]+[list(s) for s in g.generate(rng,'quick')]
drv=sys.argv[1]
inp='\n'.join(' '.join(map(str,s)) for s in scripts)+'\n'
out=subprocess.run([drv],input=inp,capture_output=True,text=True).stdout.strip().split('\n')
assert len(out)==len(scripts),(len(out),len(scripts))
mdl='/verif/ocaml/_build/C20/driver'
minp='\n'.join(' '.join(map(str,g.model_input(s,None))) for s in scripts)+'\n'
mout=subprocess.run([mdl],input=minp,capture_output=True,text=True).stdout.strip().split('\n')
nf=0
for s,o,m in zip(scripts,out,mout):
    t=[int(x) for x in o.split()]
    r=g.monitor(s,t)
    mm = (o.split()!=m.split())
    if r or mm:
        nf+=1
        print(s, '->', t, '| model', m, '| monitor:', r)
print(len(scripts),'scripts',nf,'flagged')
