From TR Require Import Lib.Base Model.Layers Proof.Layers.
Open Scope Z_scope.

(* 1. a layer that wraps the error in its pass-through variant (here: e+1000) is NOT [transparent] *)
Definition wrapping : layer_sem := fun inner req =>
  let b := inner req in
  {| calls := calls b; result := match result b with OutOk v => OutOk v | OutErr e => OutErr (e + 1000) end |}.
Lemma wrapping_not_transparent : ~ transparent wrapping.
Proof.
  intros H. specialize (H (fun q => {| calls := [q]; result := OutErr 0 |}) 0).
  unfold wrapping in H. cbn in H. discriminate.
Qed.

(* 2. mode 0 / mode 2 model output does not depend on the layer ids *)
Eval vm_compute in run_script [0; 1; 99; 0; 2; 5; 0; 11; 6; 7; 12].
Eval vm_compute in run_script [0; 3; 7; 7; 7; 2; 1; 5; 1; 11].
Eval vm_compute in run_script [2; 99; 4; 15; 3; 4; 4; 4].

(* 3. two retrying layers, RErr at the inner retry's poll: never generated *)
(* [1; n=2; Retry; Retry; k=1; nreq=1; oracle: Ready (top), Ready (inner retry), Err ] *)
Eval vm_compute in run_script [1; 2; 2; 2; 1; 1; 0; 2].
Eval vm_compute in run_script [1; 2; 2; 2; 1; 1; 0; 0; 2].
Eval vm_compute in run_script [1; 2; 2; 4; 2; 1].
(* hedge with pending inside the hedges: sequential in the model *)
Eval vm_compute in run_script [1; 1; 3; 2; 1; 0; 1; 0; 1; 0].
(* 8 pendings in a retry poll: model says code 2 *)
Eval vm_compute in run_script [1; 1; 2; 1; 1; 0; 1;1;1;1;1;1;1;1; 0].
(* fuel 0: nothing is ever called *)
Eval vm_compute in (let '(_, b, out) := client 0 [Swap; Retry 2] [init_l; init_l] (init_base []) [1;2;3] in (out, blog b)).

(* 4. spec does not force a clone to be born not-ready nor a call to consume readiness *)
Definition lax_exec (b : base) (o : op) : base * ans :=
  match o with
  | OCall x req => (mkBase (ready b) (fresh b) (oracle b) (LCall x req (ready b x) :: blog b)
                           (if ready b x then violations b else S (violations b)), ADone false)
  | _ => base_exec b o
  end.
Check layer_spec.
Check stack_spec.
